//! Per-property configuration: which explorers run, with which alphabet, bounds and probes.

use crate::explore::*;
use crate::ops::*;
use crate::queue::*;
use crate::types::*;
use serde_json::{json, Value};
use std::sync::atomic::Ordering as AO;
use std::time::Instant;

#[derive(Clone, Copy, PartialEq, Eq, Debug)]
pub enum Tier {
    Quick,
    Thorough,
}

pub struct Outcome {
    pub violations: Vec<Case>,
    pub states: u64,
    pub transitions: u64,
    pub validated: u64,
    pub samples: Vec<Value>,
    pub exhaustive: bool,
    pub layers: Vec<Value>,
    pub distinct_outcomes: u64,
    pub extra: serde_json::Map<String, Value>,
    /// problems of the machinery itself (exit 2, never a verdict)
    pub machinery_errors: Vec<String>,
}

impl Outcome {
    pub fn new() -> Outcome {
        Outcome { violations: vec![], states: 0, transitions: 0, validated: 0, samples: vec![], exhaustive: true, layers: vec![], distinct_outcomes: 0, extra: Default::default(), machinery_errors: vec![] }
    }
    pub fn absorb<H: HB>(&mut self, label: &str, ex: &Explorer<H>, t0: Instant) {
        let st = &ex.stats;
        let states = st.states.load(AO::Relaxed);
        let trans = st.transitions.load(AO::Relaxed);
        let probe = st.probe_cases.load(AO::Relaxed);
        self.states += states;
        self.transitions += trans + probe;
        self.validated += trans + probe;
        let capped = st.capped.load(AO::Relaxed);
        if capped {
            self.exhaustive = false;
        }
        let outcomes = st.outcomes.lock().unwrap().len() as u64;
        self.distinct_outcomes += outcomes;
        for s in st.samples.lock().unwrap().iter().take(3) {
            self.samples.push(json!(s));
        }
        let opc: serde_json::Map<String, Value> = st.op_counts.lock().unwrap().iter().map(|(k, v)| (k.clone(), json!(v))).collect();
        self.layers.push(json!({
            "layer": label,
            "hasher": H::NAME,
            "unique_states": states,
            "transitions": trans,
            "probe_cases": probe,
            "roots": st.roots.load(AO::Relaxed),
            "bfs_levels": st.max_depth.load(AO::Relaxed),
            "max_len_reached": st.max_len.load(AO::Relaxed),
            "distinct_outcomes": outcomes,
            "documented_capacity_panics": st.documented_panics.load(AO::Relaxed),
            "merge_soundness_rechecks": st.merge_checked.load(AO::Relaxed),
            "merge_soundness_mismatches": st.merge_mismatch.lock().unwrap().len(),
            "state_cap_hit": capped,
            "transition_graph_fingerprint": format!("{:016x}", st.graph_fp.load(AO::Relaxed)),
            "transitions_per_operation": opc,
            "wall_s": t0.elapsed().as_secs_f64(),
        }));
        let mut v = ex.violations.lock().unwrap();
        for c in v.drain(..) {
            if !self.violations.iter().any(|x| x.signature() == c.signature()) {
                self.violations.push(c);
            }
        }
        for mm in ex.stats.merge_mismatch.lock().unwrap().iter().take(3) {
            self.machinery_errors.push(format!("merge soundness: {mm}"));
        }
    }
}

pub fn threads() -> usize {
    std::env::var("VERIF_THREADS").ok().and_then(|s| s.parse().ok()).unwrap_or_else(|| std::thread::available_parallelism().map(|n| n.get()).unwrap_or(8))
}

pub fn base_cfg(prop: &'static str, k: u32, prios: &[i32], alphabet: u32) -> Cfg {
    Cfg {
        prop,
        kinds: vec![false, true],
        k,
        prios: prios.to_vec(),
        alphabet,
        root_vec_len: 2,
        append_max: 1,
        deep: true,
        max_states: 30_000_000,
        threads: threads(),
        record_costs: false,
        merge_check: std::env::var_os("PQMC_MERGE").is_some(),
        large: false,
        lean: false,
    }
}

// ---------------------------------------------------------------------------------------------
// seed families (E2)

pub const LOW: i32 = 10;
pub const HIGH: i32 = 20;

fn seed_root(prios: &[i32]) -> Root {
    Root::FromVec(prios.iter().enumerate().map(|(i, &p)| (i as u32, 0u8, p)).collect())
}

/// all 2^n vectors over {LOW, HIGH}
pub fn f_bin(n: usize) -> Vec<Root> {
    (0..(1u64 << n)).map(|mask| seed_root(&(0..n).map(|i| if mask >> i & 1 == 1 { HIGH } else { LOW }).collect::<Vec<_>>())).collect()
}
/// all 3^n vectors over {10, 20, 30}
pub fn f_tern(n: usize) -> Vec<Root> {
    let total = 3u64.pow(n as u32);
    (0..total)
        .map(|mut x| {
            let v: Vec<i32> = (0..n)
                .map(|_| {
                    let d = x % 3;
                    x /= 3;
                    10 + 10 * d as i32
                })
                .collect();
            seed_root(&v)
        })
        .collect()
}
/// all n! orders of the distinct priorities 10, 20, .., 10n
pub fn f_perm(n: usize) -> Vec<Root> {
    fn rec(cur: &mut Vec<i32>, used: &mut Vec<bool>, n: usize, out: &mut Vec<Root>) {
        if cur.len() == n {
            out.push(seed_root(cur));
            return;
        }
        for i in 0..n {
            if !used[i] {
                used[i] = true;
                cur.push(10 * (i as i32 + 1));
                rec(cur, used, n, out);
                cur.pop();
                used[i] = false;
            }
        }
    }
    let mut out = vec![];
    rec(&mut vec![], &mut vec![false; n], n, &mut out);
    out
}
/// two-breakpoint vectors over the 6 orders of three values: positions < a get x, < b get y, rest z
pub fn f_seg(n: usize) -> Vec<Root> {
    let vals = [10, 20, 30];
    let orders = [[0, 1, 2], [0, 2, 1], [1, 0, 2], [1, 2, 0], [2, 0, 1], [2, 1, 0]];
    let mut out = vec![];
    let mut seen = std::collections::HashSet::new();
    for o in orders {
        for a in 0..=n {
            for b in a..=n {
                let v: Vec<i32> = (0..n).map(|i| if i < a { vals[o[0]] } else if i < b { vals[o[1]] } else { vals[o[2]] }).collect();
                if seen.insert(v.clone()) {
                    out.push(seed_root(&v));
                }
            }
        }
    }
    out
}

/// a small structured family for expensive layers: monotone, constant, alternating, organ-pipe,
/// one HIGH among LOWs at every position, one LOW among HIGHs at every position
pub fn f_struct(n: usize) -> Vec<Root> {
    let mut v: Vec<Vec<i32>> = vec![
        (0..n).map(|i| 10 * (i as i32 + 1)).collect(),
        (0..n).map(|i| 10 * (n - i) as i32).collect(),
        vec![20; n],
        (0..n).map(|i| if i % 2 == 0 { 10 } else { 30 }).collect(),
        (0..n).map(|i| if i % 2 == 0 { 30 } else { 10 }).collect(),
        (0..n).map(|i| 10 * (i.min(n - 1 - i) as i32 + 1)).collect(),
        (0..n).map(|i| 10 * (n - i.min(n - 1 - i)) as i32).collect(),
    ];
    for j in 0..n {
        v.push((0..n).map(|i| if i == j { 30 } else { 10 }).collect());
        v.push((0..n).map(|i| if i == j { 10 } else { 30 }).collect());
    }
    v.sort();
    v.dedup();
    v.iter().map(|p| seed_root(p)).collect()
}

/// Seeds for LARGE queues (tens to thousands of elements): a fixed structured family. Values are
/// multiples of 10 in 10..=10n, so the relative priorities of `rel_large` fall below, between and above.
pub fn f_large(n: usize) -> Vec<Root> {
    let lcg = |seed: u64, modulo: u64| -> Vec<i32> {
        let mut x = seed;
        (0..n)
            .map(|_| {
                x = x.wrapping_mul(6364136223846793005).wrapping_add(1442695040888963407);
                (10 * (1 + (x >> 33) % modulo)) as i32
            })
            .collect()
    };
    let level = |i: usize| (usize::BITS - (i + 1).leading_zeros() - 1) as usize;
    let mut v: Vec<Vec<i32>> = vec![
        (0..n).map(|i| 10 * (i as i32 + 1)).collect(),
        (0..n).map(|i| 10 * (n - i) as i32).collect(),
        vec![20; n],
        (0..n).map(|i| if i % 2 == 0 { 10 } else { 30 }).collect(),
        (0..n).map(|i| if i % 2 == 0 { 30 } else { 10 }).collect(),
        (0..n).map(|i| 10 * (i.min(n - 1 - i) as i32 + 1)).collect(),
        (0..n).map(|i| 10 * (n - i.min(n - 1 - i)) as i32).collect(),
        lcg(0x2545F4914F6CDD1D, n as u64),
        lcg(0x9E3779B97F4A7C15, n as u64),
        lcg(0x2545F4914F6CDD1D, 3),
        lcg(0xD1B54A32D192ED03, 2),
        (0..n).map(|i| if level(i) % 2 == 0 { 10 } else { 30 }).collect(),
        (0..n).map(|i| if level(i) % 2 == 0 { 30 } else { 10 }).collect(),
        (0..n).map(|i| 10 * (1 + level(i) as i32)).collect(),
        (0..n).map(|i| 10 * (1 + (i % 7) as i32)).collect(),
    ];
    for j in [0, n / 2, n - 1] {
        v.push((0..n).map(|i| if i == j { 30 } else { 10 }).collect());
        v.push((0..n).map(|i| if i == j { 10 } else { 30 }).collect());
    }
    v.sort();
    v.dedup();
    v.iter().map(|p| seed_root(p)).collect()
}

pub fn rel_large(n: usize) -> Vec<i32> {
    let n = n as i32;
    let mut v = vec![5, 10, 15, 20, 25, 30, 35, 10 * ((n + 1) / 2), 10 * ((n + 1) / 2) + 5, 10 * n, 10 * n + 5];
    v.sort();
    v.dedup();
    v
}

/// E2-large: every seed of `f_large(n)` (both kinds unless restricted), every operation of the
/// large-queue alphabet (addressed at structural target positions), depth 1, lock-step oracle.
pub fn run_large<H: HB>(out: &mut Outcome, prop: &'static str, kinds: &[bool], alphabet: u32, sizes: &[usize], deep_upto: usize, mk_probes: &dyn Fn(&mut Explorer<H>)) {
    for &n in sizes {
        let mut c = seeds_cfg(prop, n, &rel_large(n), alphabet);
        c.kinds = kinds.to_vec();
        c.large = true;
        c.deep = n <= deep_upto;
        run_seeds::<H>(out, &format!("E2-large F_large({n}) depth 1, operations addressed at structural target positions"), &c, f_large(n), 1, mk_probes);
        if !out.violations.is_empty() {
            return;
        }
    }
}

pub fn seeds_cfg(prop: &'static str, n: usize, prios: &[i32], alphabet: u32) -> Cfg {
    let mut c = base_cfg(prop, n as u32 + 1, prios, alphabet);
    c.root_vec_len = 0;
    // deep receivers use the structured family of appended queues (incl. a longer clashing one)
    c.append_max = 2;
    c
}

pub const REL_BIN: [i32; 5] = [5, 10, 15, 20, 25];
pub const REL_TERN: [i32; 7] = [5, 10, 15, 20, 25, 30, 35];

pub fn rel_perm(n: usize) -> Vec<i32> {
    let n = n as i32;
    let mut v = vec![5, 10 * n + 5, 10 * ((n + 1) / 2), 10 * ((n + 1) / 2) + 5, 10, 10 * n];
    v.sort();
    v.dedup();
    v
}

/// Run one seed family: every seed is a checked constructor transition; all ops to `depth`.
pub fn run_seeds<H: HB>(out: &mut Outcome, label: &str, cfg: &Cfg, seeds: Vec<Root>, depth: u64, mk_probes: &dyn Fn(&mut Explorer<H>)) {
    let t0 = Instant::now();
    let mut ex = Explorer::<H>::new(cfg);
    mk_probes(&mut ex);
    let mut roots = vec![];
    for &d in &cfg.kinds {
        for s in &seeds {
            roots.push((d, s.clone()));
        }
    }
    // the large-reservation twin belongs to the closed small-scope runs
    LARGE_TWIN.store(false, AO::Relaxed);
    ex.run(roots, Some(depth));
    LARGE_TWIN.store(true, AO::Relaxed);
    out.absorb(label, &ex, t0);
}

pub fn run_closed<H: HB>(out: &mut Outcome, label: &str, cfg: &Cfg, mk_probes: &dyn Fn(&mut Explorer<H>)) {
    let t0 = Instant::now();
    let mut ex = Explorer::<H>::new(cfg);
    mk_probes(&mut ex);
    ex.run_closed();
    out.absorb(label, &ex, t0);
}

fn no_probes<H: HB>(_: &mut Explorer<H>) {}

// ---------------------------------------------------------------------------------------------

pub const EXTREMES: [i32; 3] = [i32::MIN, 0, i32::MAX];

/// C01/C02/C03/C04/C11/C12 share the explorers and differ in alphabet, kinds and bounds.
pub fn run_history_property<H: HB>(prop: &'static str, tier: Tier) -> Outcome {
    let mut out = Outcome::new();
    let q = tier == Tier::Quick;
    let kinds: Vec<bool> = match prop {
        "C01" => vec![false],
        "C02" => vec![true],
        _ => vec![false, true],
    };
    let full = A_CORE | A_BULK | A_CLONE | A_PEEK_MUT | A_ITER_MUT_BACK;
    let (alpha, k, m): (u32, u32, usize) = match prop {
        // order properties: the whole mutator alphabet (conversion pulls in the other kind)
        "C01" | "C02" => (full, if q { 3 } else { 4 }, 3),
        "C03" => (full | A_BORROWED | A_PAYLOAD, 3, if q { 2 } else { 3 }),
        "C04" => (full | A_ITER_MUT_BACK | A_ITER_MUT_FORGET | A_DRAIN_FORGET | A_CAPACITY | A_CAPACITY_HUGE | A_BORROWED | A_EXTEND_HUGE_HINT, 3, if q { 2 } else { 3 }),
        "C11" => (A_PUSH | A_PUSH_INCDEC | A_REMOVE | A_POP | A_CHANGE, 4, 3),
        "C12" => (A_CORE | A_PAYLOAD | A_BORROWED | A_ITER_MUT | A_ITER_MUT_BACK | A_RETAIN | A_CONVERT | A_EXTEND | A_APPEND, 3, 2),
        _ => unreachable!(),
    };
    let prios: Vec<i32> = (0..m as i32).collect();
    let mut cfg = base_cfg(prop, k, &prios, alpha);
    cfg.kinds = kinds.clone();
    // constructors: every vector of <= 3 pairs (a repeated item followed by a new one needs 3)
    cfg.root_vec_len = 3;
    // merge soundness (thorough): successors recomputed from re-discovered copies must match
    cfg.merge_check |= !q && matches!(prop, "C03" | "C12");
    if prop == "C01" || prop == "C02" {
        // the other kind is reachable through Convert; roots only of the property's kind
    }
    let uni0 = cfg.universe();
    let mk0 = |ex: &mut Explorer<H>| {
        if prop == "C11" || prop == "C03" {
            for p in crate::probes::all_probes::<H>(prop, &uni0) {
                ex.probes.push(p);
            }
        }
    };
    run_closed::<H>(&mut out, &format!("E1 closed ({k} items x {m} priorities)"), &cfg, &mk0);
    if !out.violations.is_empty() {
        return out;
    }
    if prop == "C03" {
        // cross-engine count: an independent naive explorer (public API keys, single thread, no hook)
        // must find exactly as many unique states as E1 for the same alphabet and roots
        let mut c2 = base_cfg(prop, if q { 3 } else { 4 }, &[0, 1], A_REACH | A_RETAIN | A_ITER_MUT);
        c2.deep = false;
        let t0 = Instant::now();
        let ex = Explorer::<H>::new(&c2);
        ex.run_closed();
        let e1_states = ex.stats.states.load(AO::Relaxed);
        out.absorb("E1 closed, reduced alphabet (for the cross-engine count)", &ex, t0);
        let t0 = Instant::now();
        let (naive_states, naive_trans) = crate::naive::count_states::<H>(&c2);
        out.layers.push(json!({"layer": "cross-engine count: naive single-threaded explorer keyed by Debug/iter strings", "unique_states": naive_states, "transitions": naive_trans, "e1_unique_states": e1_states, "agree": naive_states == e1_states, "wall_s": t0.elapsed().as_secs_f64()}));
        if naive_states != e1_states {
            out.machinery_errors.push(format!("cross-engine count: E1 found {e1_states} unique states, the naive explorer {naive_states}"));
        }
    }
    if q && matches!(prop, "C01" | "C02" | "C11") {
        // a fourth item with two priorities (the thorough tier closes 4 x 3)
        let mut cfg4 = base_cfg(prop, 4, &[0, 1], alpha);
        cfg4.kinds = kinds.clone();
        cfg4.root_vec_len = 2;
        run_closed::<H>(&mut out, "E1 closed (4 items x 2 priorities)", &cfg4, &no_probes);
        if !out.violations.is_empty() {
            return out;
        }
    }
    if prop == "C04" {
        // deserialisation is part of the safe public API too: every pair sequence of <= 3 pairs
        // (repeats included) through the three serde channels must not panic (see C15 for the contents)
        let t0 = Instant::now();
        let keys: Vec<u32> = (0..3).collect();
        let seqs: Vec<Vec<Pair>> = pair_seqs(&keys, &[0, 1, 2], 3).into_iter().map(|s| s.into_iter().map(|(k, _, p)| (k, 0, p)).collect()).collect();
        let acfg = base_cfg(prop, 3, &[0, 1, 2], A_PUSH | A_POP | A_REMOVE);
        let (cases, viol) = crate::post::par_each(seqs.len() * 2, threads(), |i| {
            let d = i % 2 == 1;
            let s = &seqs[i / 2];
            let mk_case = |e: String| Case { prop: prop.into(), hasher: H::NAME.into(), double: d, root: Root::FromVec(s.clone()), ops: vec![], last: None, probe: Some("serde-arbitrary-input".into()), detail: e, universe: vec![0, 1, 2], aux: None, trail: vec![], params: vec![] };
            crate::crash::set_case(|| mk_case(String::new()));
            let r = if d { crate::c15::arbitrary_input::<DPQ<H>>(s, &acfg) } else { crate::c15::arbitrary_input::<PQ<H>>(s, &acfg) };
            r.map_err(mk_case)
        });
        absorb_post(&mut out, "deserialising every pair sequence of <= 3 pairs (repeats included), 3 channels, both kinds: no panic", cases, viol, t0, json!({"sequences": seqs.len()}));
        if !out.violations.is_empty() {
            return out;
        }
    }
    if matches!(prop, "C01" | "C02" | "C04") {
        // extreme values: same closure over {MIN, 0, MAX}
        let mut cfg2 = base_cfg(prop, if q { 2 } else { 3 }, &EXTREMES, alpha & !(A_RETAIN_MUT));
        cfg2.kinds = kinds.clone();
        run_closed::<H>(&mut out, "E1 closed, extreme priorities {i32::MIN,0,i32::MAX}", &cfg2, &no_probes);
        if !out.violations.is_empty() {
            return out;
        }
    }
    // E2: deep trees. For C01/C02 also seeds of the OTHER kind: "conversion from the other queue kind"
    // is in their alphabet, and a conversion bug only shows on a deep source.
    let kinds: Vec<bool> = if matches!(prop, "C01" | "C02") { vec![false, true] } else { kinds };
    let seed_alpha = alpha & !(A_APPEND | A_CLONE | A_CAPACITY | A_PAYLOAD) | A_APPEND;
    let bin_sizes: Vec<usize> = if q { vec![7, 8] } else { vec![7, 8, 9, 10, 11, 12, 13, 14, 15] };
    for n in bin_sizes {
        let mut c = seeds_cfg(prop, n, &REL_BIN, seed_alpha);
        c.kinds = kinds.clone();
        c.deep = n <= 10;
        run_seeds::<H>(&mut out, &format!("E2 F_bin({n}) depth 1"), &c, f_bin(n), 1, &no_probes);
        if !out.violations.is_empty() {
            return out;
        }
    }
    let seg_sizes: Vec<usize> = if q { vec![16, 17] } else { vec![16, 17, 18, 19, 20, 31, 32, 33] };
    for n in seg_sizes {
        let mut c = seeds_cfg(prop, n, &REL_TERN, seed_alpha);
        c.kinds = kinds.clone();
        run_seeds::<H>(&mut out, &format!("E2 F_seg({n}) depth 1"), &c, f_seg(n), 1, &no_probes);
        if !out.violations.is_empty() {
            return out;
        }
    }
    let perm_sizes: Vec<usize> = if q { vec![4, 5] } else { vec![5, 6, 7, 8] };
    for n in perm_sizes {
        let mut c = seeds_cfg(prop, n, &rel_perm(n), seed_alpha);
        c.kinds = kinds.clone();
        let depth = if n <= if q { 4 } else { 6 } { 2 } else { 1 };
        run_seeds::<H>(&mut out, &format!("E2 F_perm({n}) depth {depth}"), &c, f_perm(n), depth, &no_probes);
        if !out.violations.is_empty() {
            return out;
        }
    }
    // large queues (depths the families above do not reach)
    let large_sizes: Vec<usize> = if q { vec![40, 64, 65, 127, 128] } else { vec![40, 63, 64, 65, 100, 127, 128, 129, 255, 256, 257, 511, 512, 513, 1000, 1023, 1024, 1025, 2047, 2048, 2049] };
    run_large::<H>(&mut out, prop, &kinds, seed_alpha, &large_sizes, 129, &no_probes);
    if !out.violations.is_empty() {
        return out;
    }
    if !q {
        for n in [5, 6, 7, 8] {
            let mut c = seeds_cfg(prop, n, &REL_TERN, seed_alpha);
            c.kinds = kinds.clone();
            run_seeds::<H>(&mut out, &format!("E2 F_tern({n}) depth 1"), &c, f_tern(n), 1, &no_probes);
            if !out.violations.is_empty() {
                return out;
            }
        }
    }
    type_matrix(&mut out, prop);
    out
}

/// Alphabet that reaches every arrangement (slot order x heap shape) of a small universe.
pub const A_REACH: u32 = A_PUSH | A_CHANGE | A_REMOVE | A_POP | A_CONVERT;

/// C06/C09/C13/C16: the property is a statement about programs run FROM every reachable state.
pub fn run_probe_property<H: HB>(prop: &'static str, tier: Tier) -> Outcome {
    let mut out = Outcome::new();
    let q = tier == Tier::Quick;
    let (k, m) = match (prop, q) {
        ("C16", true) => (2, 3),
        ("C16", false) => (3, 2),
        ("C13", true) => (4, 2),
        (_, true) => (3, 3),
        (_, false) => (4, 3),
    };
    let prios: Vec<i32> = (0..m).collect();
    let mut cfg = base_cfg(prop, k, &prios, A_REACH | A_POP_IF | match prop {
        "C16" => A_CLEAR_DRAIN | A_DRAIN_FORGET | A_EXTEND | A_CLONE,
        // sorted consumption after in-place mutation from either end
        "C06" => A_ITER_MUT | A_ITER_MUT_BACK | A_RETAIN_MUT | A_RETAIN | A_CLONE,
        // iterators over queues that went through the bulk paths (and clone_from into a used target) too
        "C13" | "C09" => A_APPEND | A_RETAIN | A_EXTEND | A_CLONE,
        _ => 0,
    });
    cfg.append_max = 2;
    cfg.root_vec_len = 3;
    cfg.deep = false;
    let universe = cfg.universe();
    let mk = |ex: &mut Explorer<H>| {
        for p in crate::probes::all_probes::<H>(prop, &universe) {
            ex.probes.push(p);
        }
    };
    run_closed::<H>(&mut out, &format!("E1 closed ({k} items x {m} priorities) + programs from every state"), &cfg, &mk);
    if prop == "C16" && out.violations.is_empty() {
        // drop accounting with plain (drop-glue-free) priorities and tracked items
        let t0 = Instant::now();
        crate::crash::set_case(|| Case { prop: prop.into(), hasher: H::NAME.into(), double: false, root: Root::New, ops: vec![], last: None, probe: Some("drop-accounting-plain-priorities".into()), detail: String::new(), universe: vec![], aux: None, trail: vec![], params: vec![] });
        let r = std::panic::catch_unwind(crate::probes::drop_accounting_plain);
        let (cases, viol) = match r {
            Ok(Ok(c)) => (c, vec![]),
            Ok(Err(e)) => (0, vec![e]),
            Err(e) => (0, vec![format!("panicked: {}", panic_text(&e))]),
        };
        let viol: Vec<Case> = viol.into_iter().map(|e| Case { prop: prop.into(), hasher: H::NAME.into(), double: e.starts_with("Double"), root: Root::New, ops: vec![], last: None, probe: Some("drop-accounting-plain-priorities".into()), detail: e, universe: vec![], aux: None, trail: vec![], params: vec![] }).collect();
        absorb_post(&mut out, "drop accounting: queues of 0..6 tracked items with i32 priorities (no drop glue) x clear / drain (consumed j, dropped or leaked) / retain none / pop all / into_iter / into_sorted_iter / append+clear / clone: every item dropped exactly once", cases, viol, t0, json!({}));
    }
    if prop == "C16" && out.violations.is_empty() {
        // "all subsequent histories on the emptied queue": queues emptied in each of seven ways,
        // refilled by pushes to every deep seed tree, then every operation under the lock-step oracle
        for n in if q { vec![6usize, 8] } else { vec![5, 6, 7, 8, 9, 10] } {
            let mut c = seeds_cfg(prop, n, &REL_BIN, A_REACH | A_PUSH_INCDEC | A_CLEAR_DRAIN);
            c.deep = n <= 8;
            let mut roots = vec![];
            for s in if n <= 8 { f_bin(n) } else { f_seg(n) } {
                let Root::FromVec(pairs) = s else { continue };
                for how in 0..7u8 {
                    if q && n == 8 && how % 3 != 0 {
                        continue;
                    }
                    roots.push(Root::Refilled(how, pairs.clone()));
                }
            }
            let depth = if q || n > 8 { 1 } else { 2 };
            run_seeds::<H>(&mut out, &format!("E2 emptied (7 ways) and refilled to every seed of {n} elements, depth {depth}"), &c, roots, depth, &no_probes);
            if !out.violations.is_empty() {
                return out;
            }
        }
    }
    if prop == "C16" && out.violations.is_empty() {
        // clear / drain (consumed, partially consumed, leaked) on other element types
        type_matrix(&mut out, prop);
    }
    if !out.violations.is_empty() || prop == "C16" && q {
        return out;
    }
    if prop == "C06" || prop == "C13" {
        // deep trees one operation away from a seed (remove / change / push / pop / conversion /
        // extend on both strategies / append), then the iterator programs (structured family)
        let dname = if prop == "C06" { "C06d" } else { "C13d" };
        for n in if q && prop == "C13" { vec![8usize, 16] } else if q { vec![6usize, 7, 8, 16, 17] } else { vec![6, 7, 8, 9, 10, 15, 16, 17, 31, 32, 33] } {
            // (C06: also in-place mutation through iter_mut, incl. two writes at every pair of positions
            // with the iterator dropped early, and retain, before the sorted consumption)
            let mut c = seeds_cfg(prop, n, &REL_BIN, A_REACH | A_EXTEND | A_APPEND | A_PUSH_INCDEC | if prop == "C06" && n <= 10 { A_ITER_MUT | A_ITER_MUT_BACK | A_RETAIN } else { 0 });
            c.deep = false;
            let seeds = if n <= 8 { f_bin(n) } else if q || n > 17 { f_struct(n) } else { f_seg(n) };
            let uni = c.universe();
            let mk = |ex: &mut Explorer<H>| {
                for p in crate::probes::all_probes::<H>(dname, &uni[..3]) {
                    ex.probes.push(p);
                }
            };
            run_seeds::<H>(&mut out, &format!("E2 seeds of {n} elements, every operation (depth 1), iterator programs from every resulting state"), &c, seeds, 1, &mk);
            if !out.violations.is_empty() {
                return out;
            }
        }
    }
    // large queues: programs (structured family) from every seed of F_large, and (C06, C16) from
    // every state one operation away
    {
        let sizes: Vec<usize> = match (prop, q) {
            ("C16", true) => vec![],
            ("C16", false) => vec![40, 65, 128, 257],
            ("C09", true) => vec![40, 65],
            ("C09", false) => vec![40, 64, 65, 128],
            (_, true) => vec![40, 65, 128],
            (_, false) => vec![40, 64, 65, 100, 127, 128, 129, 256, 257],
        };
        for n in sizes {
            // (C16: the emptied-like-fresh probe runs depth-2 continuations after every drain pattern, so
            // it is attached to the seeds themselves; the drain / clear transitions are judged at depth 1
            // by a separate run without the probe)
            let depth = if prop == "C06" && n <= if q { 40 } else { 65 } { 1 } else { 0 };
            let mut c = seeds_cfg(prop, n, &rel_large(n), A_REACH | match prop {
                "C16" => A_CLEAR_DRAIN | A_DRAIN_FORGET,
                "C06" if !q => A_RETAIN | A_ITER_MUT | A_EXTEND | A_APPEND,
                _ => 0,
            });
            c.large = true;
            c.deep = false;
            let pu: Vec<u32> = vec![0, n as u32 / 2, n as u32 - 1];
            let dname = match prop { "C06" => "C06d", "C13" => "C13m", "C09" => "C09m", x => x };
            // the full program families are cubic in the queue length: beyond 65 elements (quick: 40
            // for iter_mut) the reduced families run
            let reduced = depth > 0 || (prop == "C09" && (q || n > 65));
            let mk = |ex: &mut Explorer<H>| {
                for p in crate::probes::all_probes::<H>(if reduced { dname } else { prop }, &pu) {
                    ex.probes.push(p);
                }
            };
            run_seeds::<H>(&mut out, &format!("E2-large F_large({n}) depth {depth}: programs (structured family) from every state"), &c, f_large(n), depth, &mk);
            if !out.violations.is_empty() {
                return out;
            }
            if prop == "C16" {
                run_seeds::<H>(&mut out, &format!("E2-large F_large({n}) depth 1: clear / drain (structured patterns, dropped or leaked) and the other operations as transitions"), &c, f_large(n), 1, &no_probes);
                if !out.violations.is_empty() {
                    return out;
                }
            }
        }
    }
    // programs from deep trees too (depth 0: the seeds themselves)
    let sizes: Vec<usize> = match (prop, q) {
        ("C16", _) => vec![7, 8],
        ("C06", true) => vec![5, 6, 7, 8, 9, 10, 15, 16, 17],
        ("C06", false) => vec![5, 6, 7, 8, 9, 10, 11, 12, 15, 16, 17, 31, 32, 33],
        (_, true) => vec![5, 6, 7],
        (_, false) => vec![5, 6, 7, 8, 9, 10],
    };
    for n in sizes {
        let mut c = seeds_cfg(prop, n, &REL_BIN, A_REACH);
        c.deep = false;
        let seeds = if n <= 8 && !(prop == "C06" && q && n > 7) { f_bin(n) } else { f_seg(n) };
        let uni = c.universe();
        let mk = |ex: &mut Explorer<H>| {
            for p in crate::probes::all_probes::<H>(prop, &uni[..uni.len().min(3)]) {
                ex.probes.push(p);
            }
        };
        run_seeds::<H>(&mut out, &format!("E2 seeds of {n} elements, programs from every seed"), &c, seeds, 0, &mk);
        if !out.violations.is_empty() {
            return out;
        }
    }
    out
}

/// E4: the closed search repeated on ten instantiations of the element types.
pub fn type_matrix(out: &mut Outcome, prop: &'static str) {
    let t0 = Instant::now();
    let (states, transitions, viol, per) = crate::typed::run_matrix(prop);
    out.states += states;
    absorb_post(out, "E4 type matrix: closed search (all mutators, clone/clone_from, conversion, capacity calls, serde round trips through JSON text and Value) to the fixpoint on 10 instantiations of the element types (String/&str, zero-sized item and/or priority, Reverse, heap-owning, tuple, 128-bit, Box<str>, arrays), both kinds", transitions, viol, t0, per);
}

pub fn absorb_post(out: &mut Outcome, label: &str, cases: u64, viol: Vec<Case>, t0: Instant, extra: Value) {
    out.transitions += cases;
    out.validated += cases;
    out.layers.push(json!({"layer": label, "cases": cases, "wall_s": t0.elapsed().as_secs_f64(), "detail": extra}));
    for c in viol {
        if !out.violations.iter().any(|x| x.signature() == c.signature()) {
            out.violations.push(c);
        }
    }
}

/// sequences of (item, priority) pairs with distinct payloads (so that which item value is kept is visible)
pub fn pair_seqs(keys: &[u32], prios: &[i32], max_len: usize) -> Vec<Vec<Pair>> {
    let mut out: Vec<Vec<Pair>> = vec![vec![]];
    let mut layer: Vec<Vec<Pair>> = vec![vec![]];
    for pos in 0..max_len {
        let mut next = vec![];
        for v in &layer {
            for &k in keys {
                for &p in prios {
                    let mut w = v.clone();
                    w.push((k, 100 + pos as u8, p));
                    next.push(w);
                }
            }
        }
        out.extend(next.iter().cloned());
        layer = next;
    }
    out
}

/// long sequences (>= 17 pairs) that put extend on the rebuild side of its threshold
pub fn long_seqs(n_present: u32, prios: &[i32]) -> Vec<Vec<Pair>> {
    let np = prios.len();
    let mut out = vec![];
    for len in [17usize, 18, 24, 48].into_iter().chain((n_present > 40).then_some(n_present as usize + 5)) {
        // all new items, ascending / descending / constant priorities
        out.push((0..len).map(|i| (n_present + i as u32, 100, prios[i % np])).collect());
        out.push((0..len).map(|i| (n_present + i as u32, 100, prios[(len - i) % np])).collect());
        out.push((0..len).map(|i| (n_present + i as u32, 100, prios[0])).collect());
        // alternate present / new items
        out.push((0..len).map(|i| (if i % 2 == 0 { (i as u32 / 2) % n_present.max(1) } else { n_present + i as u32 }, 100 + (i % 100) as u8, prios[(i * 7) % np])).collect());
        // one present item repeated with varying priority, the last one decides
        out.push((0..len).map(|i| (0u32, 100 + (i % 100) as u8, prios[(i * 3 + 1) % np])).collect());
        // one new item repeated
        out.push((0..len).map(|i| (n_present + 1, 100 + (i % 100) as u8, prios[(i * 5 + 2) % np])).collect());
        // every present item rewritten, then new ones
        out.push((0..len).map(|i| (i as u32, 100 + (i % 100) as u8, prios[(i + 1) % np])).collect());
    }
    out
}

pub fn run_c07<H: HB>(tier: Tier) -> Outcome {
    let prop = "C07";
    let mut out = Outcome::new();
    let q = tier == Tier::Quick;
    let th = threads();
    // (a) constructors: all vectors with repeats, From<Vec> first-wins, FromIterator last-wins, all hints
    let (k, m, len) = if q { (3u32, 3usize, 4usize) } else { (3, 3, 5) };
    let prios: Vec<i32> = (0..m as i32).collect();
    let keys: Vec<u32> = (0..k).collect();
    let seqs = pair_seqs(&keys, &prios, len);
    {
        let t0 = Instant::now();
        let mut cfg = base_cfg(prop, k, &prios, A_POP);
        cfg.root_vec_len = 0;
        let mut roots = vec![];
        for d in [false, true] {
            for s in &seqs {
                roots.push((d, Root::FromVec(s.clone())));
            }
        }
        let ex = Explorer::<H>::new(&cfg);
        ex.run(roots, Some(0));
        out.absorb(&format!("From<Vec>: all {} vectors of <= {len} pairs over {k} items x {m} priorities, both kinds", seqs.len()), &ex, t0);
        if !out.violations.is_empty() {
            return out;
        }
        let t0 = Instant::now();
        let uni = cfg.universe();
        let (cases, viol) = crate::post::par_each(seqs.len() * 2, th, |i| {
            let d = i % 2 == 1;
            let s = &seqs[i / 2];
            crate::crash::set_case(|| Case { prop: prop.into(), hasher: H::NAME.into(), double: d, root: Root::FromIter(s.clone(), Hint { lo: 0, hi: None }), ops: vec![], last: None, probe: Some("from_iter-differential".into()), detail: String::new(), universe: uni.clone(), aux: None, trail: vec![], params: vec![] });
            crate::post::from_iter_differential::<H>(d, &uni, s, true).map_err(|(r, e)| Case {
                prop: prop.into(), hasher: H::NAME.into(), double: d, root: r, ops: vec![], last: None,
                probe: Some("from_iter-differential".into()), detail: e, universe: uni.clone(), aux: None, trail: vec![], params: vec![],
            })
        });
        absorb_post(&mut out, "FromIterator: same vectors x every legal size_hint, differential over hints", cases, viol, t0, json!({"sequences": seqs.len(), "hints_per_sequence": crate::post::hint_menu(2, true).len()}));
        if !out.violations.is_empty() {
            return out;
        }
    }
    // (b) extend on every reachable small state and on deep seeds, differential over hints
    {
        let t0 = Instant::now();
        let (k, m) = (3u32, 3usize);
        let prios: Vec<i32> = (0..m as i32).collect();
        let mut cfg = base_cfg(prop, k, &prios, A_REACH | A_APPEND | A_EXTEND | A_RETAIN | A_ITER_MUT);
        cfg.append_max = 2;
        let mut ex = Explorer::<H>::new(&cfg);
        ex.collect = Some(Default::default());
        // which of several equal-ranking priorities the bulk operations keep (tagged priorities)
        for p in crate::probes::all_probes::<H>(prop, &cfg.universe()) {
            ex.probes.push(p);
        }
        ex.run_closed();
        out.absorb(&format!("E1 closed ({k} items x {m} priorities) with extend/append/conversion transitions; tagged-priority bulk probe from every state"), &ex, t0);
        if !out.violations.is_empty() {
            return out;
        }
        let nodes = ex.collect.take().unwrap().into_inner().unwrap();
        let uni: Vec<u32> = (0..k + 1).collect();
        let keys: Vec<u32> = (0..k + 1).collect();
        let seqs = pair_seqs(&keys, &prios, if q { 2 } else { 3 });
        let t0 = Instant::now();
        let (cases, viol) = crate::post::par_each(nodes.len(), th, |i| {
            let n = &nodes[i];
            let mm = model_of(&n.q.snap());
            let oc = |op: &Op| crate::crash::set_case(|| crate::post::node_case(prop, n, &uni, Some(op.clone()), "extend-differential", String::new()));
            crate::post::extend_differential(&n.q, &mm, &uni, &seqs, true, &oc).map_err(|(op, e)| crate::post::node_case(prop, n, &uni, Some(op), "extend-differential", e))
        });
        absorb_post(&mut out, "extend: every E1 state x every sequence x every legal size_hint, differential over hints", cases, viol, t0, json!({"receivers": nodes.len(), "sequences": seqs.len()}));
        if !out.violations.is_empty() {
            return out;
        }
        // (c) append: all ordered pairs of explored states
        let t0 = Instant::now();
        let nn = nodes.len();
        let (cases, viol) = crate::post::par_each(nn, th, |i| {
            let a = &nodes[i];
            let mut c = 0;
            for b in &nodes {
                if !crate::post::same_kind(&a.q, &b.q) {
                    continue;
                }
                crate::crash::set_case(|| {
                    let mut cs = crate::post::node_case(prop, a, &uni, None, "append-pair", String::new());
                    cs.aux = Some((b.root.0, b.root.1.clone(), b.ops()));
                    cs
                });
                c += 1;
                crate::post::append_pair(&a.q, &b.q, &uni).map_err(|e| {
                    let mut cs = crate::post::node_case(prop, a, &uni, None, "append-pair", e);
                    cs.aux = Some((b.root.0, b.root.1.clone(), b.ops()));
                    cs
                })?;
            }
            Ok(c)
        });
        absorb_post(&mut out, "append: all ordered pairs of E1 states of the same kind", cases, viol, t0, json!({"states": nn}));
        if !out.violations.is_empty() {
            return out;
        }
    }
    // deep receivers: both sides of the push-versus-rebuild threshold
    let sizes: Vec<usize> = if q { vec![8, 9, 16, 17, 32, 33, 64, 65, 128] } else { vec![7, 8, 9, 10, 15, 16, 17, 31, 32, 33, 64, 65, 127, 128, 129, 256, 257, 512, 513, 1024, 1025] };
    for n in sizes {
        let t0 = Instant::now();
        let mut cfg = seeds_cfg(prop, n, &if n > 40 { rel_large(n) } else { REL_TERN.to_vec() }, A_APPEND | A_CONVERT | if n > 40 { A_EXTEND } else { 0 });
        cfg.append_max = if q { 2 } else { 3 };
        cfg.deep = n <= 9;
        cfg.large = n > 40;
        let seeds = if n <= 9 && !q || n <= 7 { f_bin(n) } else if n > 40 && q { f_large(n) } else if n > 40 { let mut v = f_large(n); if n < 100 { v.extend(f_struct(n)); } v } else { f_seg(n) };
        let mut ex = Explorer::<H>::new(&cfg);
        ex.collect = Some(Default::default());
        for p in crate::probes::all_probes::<H>(prop, &cfg.universe()) {
            ex.probes.push(p);
        }
        let mut roots = vec![];
        for d in [false, true] {
            for s in &seeds {
                roots.push((d, s.clone()));
            }
        }
        ex.run(roots, Some(0));
        let nodes = ex.collect.take().unwrap().into_inner().unwrap();
        out.absorb(&format!("E2 receivers of {n} elements (tagged-priority bulk probe from each)"), &ex, t0);
        if !out.violations.is_empty() {
            return out;
        }
        let uni = cfg.universe();
        let keys: Vec<u32> = vec![0, n as u32 / 2, n as u32 - 1, n as u32];
        let mut seqs = pair_seqs(&keys, &[5, 15, 35], if q { 1 } else { 2 });
        seqs.extend(long_seqs(n as u32, &REL_TERN));
        let t0 = Instant::now();
        let (cases, viol) = crate::post::par_each(nodes.len(), th, |i| {
            let nd = &nodes[i];
            let mm = model_of(&nd.q.snap());
            let oc = |op: &Op| crate::crash::set_case(|| crate::post::node_case(prop, nd, &uni, Some(op.clone()), "extend-differential", String::new()));
            crate::post::extend_differential(&nd.q, &mm, &uni, &seqs, true, &oc).map_err(|(op, e)| crate::post::node_case(prop, nd, &uni, Some(op), "extend-differential", e))
        });
        absorb_post(&mut out, &format!("extend on receivers of {n} elements: short and >= 17-pair sequences x every legal hint (push and rebuild strategies), differential"), cases, viol, t0, json!({"receivers": nodes.len(), "sequences": seqs.len()}));
        if !out.violations.is_empty() {
            return out;
        }
        // append / conversion transitions from the seeds
        let t0 = Instant::now();
        let ex2 = Explorer::<H>::new(&cfg);
        let mut roots = vec![];
        for d in [false, true] {
            for s in &seeds {
                roots.push((d, s.clone()));
            }
        }
        ex2.run(roots, Some(1));
        out.absorb(&format!("E2 append/convert from receivers of {n} elements"), &ex2, t0);
        if !out.violations.is_empty() {
            return out;
        }
    }
    out
}

pub fn run_c10<H: HB>(tier: Tier) -> Outcome {
    use crate::e3::*;
    let prop = "C10";
    let mut out = Outcome::new();
    let q = tier == Tier::Quick;
    let fault_alpha = A_CORE | A_BULK | A_CLONE | A_BORROWED | A_ITER_MUT_BACK | A_ITER_MUT_FORGET | A_DRAIN_FORGET | A_CAPACITY | A_CONSUME;
    let cont_alpha = A_PUSH | A_CHANGE | A_REMOVE | A_POP | A_POP_IF | A_RETAIN | A_ITER_MUT | A_EXTEND | A_APPEND | A_CLEAR_DRAIN | A_CLONE | A_CONVERT | A_CAPACITY;
    let mut layers: Vec<(String, Cfg, Vec<(bool, Root)>, Option<u64>, Cfg)> = vec![];
    for (k, m) in if q { vec![(3u32, 3usize)] } else { vec![(3, 3), (4, 2)] } {
        let prios: Vec<i32> = (0..m as i32).collect();
        let mut cfg = base_cfg(prop, k, &prios, A_REACH);
        cfg.root_vec_len = if k > 3 { 1 } else { 2 };
        let mut roots = vec![];
        for d in [false, true] {
            for r in roots_for(&cfg) {
                roots.push((d, r));
            }
        }
        let mut cont = base_cfg(prop, k, &prios[..2.min(prios.len())], cont_alpha);
        cont.append_max = 1;
        layers.push((format!("every E1 state ({k} items x {m} priorities)"), cfg, roots, None, cont));
    }
    for n in if q { vec![7usize, 8] } else { vec![7, 8, 9, 16, 17, 33] } {
        let cfg = seeds_cfg(prop, n, &[5, 15, 35], A_REACH);
        let seeds = if q || n > 8 { f_struct(n) } else { f_seg(n) };
        let mut roots = vec![];
        for d in [false, true] {
            for s in &seeds {
                roots.push((d, s.clone()));
            }
        }
        let cont = seeds_cfg(prop, n, &[5, 35], A_PUSH | A_CHANGE | A_REMOVE | A_POP | A_CLEAR_DRAIN | A_CONVERT | A_CLONE);
        layers.push((format!("every seed of {n} elements"), cfg, roots, Some(0), cont));
    }
    for (label, cfg, roots, depth, cont_cfg) in layers {
        let t0 = Instant::now();
        let mut ex = Explorer::<H>::new(&cfg);
        ex.collect = Some(Default::default());
        ex.run(roots, depth);
        let nodes = ex.collect.take().unwrap().into_inner().unwrap();
        out.absorb(&format!("fault-free base states: {label}"), &ex, t0);
        if !out.violations.is_empty() {
            return out;
        }
        let mut fault_cfg = cfg.clone();
        let deep = cfg.k > 6;
        fault_cfg.alphabet = if deep { fault_alpha & !(A_CAPACITY | A_BORROWED) } else { fault_alpha };
        // quick tier, deep seeds: the breadth families stay out of the fault layer (the thorough tier has them)
        fault_cfg.lean = q && deep;
        let big = cfg.k == 4;
        let e3cfg = E3Cfg { prop, fault_cfg, cont_cfg, max_faults: if q || deep || big { 1 } else { 2 }, depth: if deep { 1 } else if q || big { 2 } else { 3 }, threads: threads(), max_states: if q { 3_000_000 } else { 40_000_000 }, max_wall_s: if q { 40.0 } else { 300.0 } };
        let e3 = E3::<H>::new(&e3cfg);
        let bases: Vec<FNode<H>> = nodes.iter().map(|n| FNode { q: None, base_q: std::sync::Arc::new(n.q.clone()), faults: 0, depth: 0, base: std::sync::Arc::new((n.root.0, n.root.1.clone(), n.ops())), trail: None }).collect();
        let t0 = Instant::now();
        e3.run(bases);
        let st = &e3.stats;
        let trans = st.transitions.load(AO::Relaxed);
        out.states += st.post_fault_states.load(AO::Relaxed);
        out.transitions += trans;
        out.validated += trans;
        out.distinct_outcomes += st.outcome_count();
        let per_class: serde_json::Map<String, Value> = (0..NCLASS).map(|c| (CLASS_NAMES[c].to_string(), json!(st.per_class[c].load(AO::Relaxed)))).collect();
        out.layers.push(json!({
            "layer": format!("E3 fault enumeration from {label}"),
            "base_states": st.base_states.load(AO::Relaxed),
            "crash_points_enumerated": st.fault_points.load(AO::Relaxed),
            "crash_points_per_callback_class": per_class,
            "faults_that_fired": st.faults_fired.load(AO::Relaxed),
            "unique_post_fault_states": st.post_fault_states.load(AO::Relaxed),
            "transitions_incl_continuations": trans,
            "continuation_panics_caught": st.cont_panics.load(AO::Relaxed),
            "leaked_iterator_cases": st.leaked_iter_cases.load(AO::Relaxed),
            "max_faults_per_path": e3cfg.max_faults,
            "continuation_depth": e3cfg.depth,
            "cap_hit": st.capped.load(AO::Relaxed),
            "wall_s": t0.elapsed().as_secs_f64(),
        }));
        for s in st.samples.lock().unwrap().iter().take(2) {
            out.samples.push(json!(s));
        }
        if st.capped.load(AO::Relaxed) {
            out.exhaustive = false;
        }
        let mut v = e3.violations.lock().unwrap();
        for c in v.drain(..) {
            if !out.violations.iter().any(|x| x.signature() == c.signature()) {
                out.violations.push(c);
            }
        }
        if !out.violations.is_empty() {
            return out;
        }
    }
    out
}

pub fn run_c08<H: HB>(tier: Tier) -> Outcome {
    let prop = "C08";
    let mut out = Outcome::new();
    let q = tier == Tier::Quick;
    let (k, m) = if q { (3u32, 3i32) } else { (4, 3) };
    let prios: Vec<i32> = (0..m).collect();
    let alpha = A_REACH | A_RETAIN | A_RETAIN_MUT | A_ITER_MUT | A_ITER_MUT_BACK | A_POP_IF;
    let cfg = base_cfg(prop, k, &prios, alpha);
    let universe = cfg.universe();
    let pname = "C08t";
    let mk = |ex: &mut Explorer<H>| {
        for p in crate::probes::all_probes::<H>(pname, &universe) {
            ex.probes.push(p);
        }
    };
    run_closed::<H>(&mut out, &format!("E1 closed ({k} items x {m} priorities): retain/retain_mut/iter_mut/pop_if transitions + every prefix x write pattern x every rewrite table from every state"), &cfg, &mk);
    if !out.violations.is_empty() {
        return out;
    }
    if q {
        let mut cfg4 = base_cfg(prop, 4, &[0, 1], alpha);
        cfg4.root_vec_len = 2;
        let uni4 = cfg4.universe();
        let mk4 = |ex: &mut Explorer<H>| {
            for p in crate::probes::all_probes::<H>("C08", &uni4) {
                ex.probes.push(p);
            }
        };
        run_closed::<H>(&mut out, "E1 closed (4 items x 2 priorities) + every prefix x write pattern from every state", &cfg4, &mk4);
        if !out.violations.is_empty() {
            return out;
        }
    }
    for n in if q { vec![6usize, 7, 8, 11, 12, 16] } else { vec![6, 7, 8, 9, 10, 11, 12, 15, 16, 17, 31, 32, 33] } {
        let mut c = seeds_cfg(prop, n, &REL_BIN, alpha & !A_REACH | A_POP);
        c.deep = n <= 9;
        let seeds = if n <= 8 { f_bin(n) } else { f_seg(n) };
        run_seeds::<H>(&mut out, &format!("E2 seeds of {n} elements, depth 1"), &c, seeds, 1, &no_probes);
        if !out.violations.is_empty() {
            return out;
        }
    }
    {
        let sizes: Vec<usize> = if q { vec![40, 64, 65, 128] } else { vec![40, 63, 64, 65, 100, 127, 128, 129, 255, 256, 257, 512, 513, 1024, 1025] };
        run_large::<H>(&mut out, prop, &[false, true], alpha & !A_REACH | A_POP, &sizes, 129, &no_probes);
        if !out.violations.is_empty() {
            return out;
        }
    }
    // LAST layer (a known finding lives here, so everything else has been explored before): the
    // references iter_mut yields outlive the iterator. One explorer per kind, so that both kinds
    // are looked at even though each stops at its first violation.
    for d in [false, true] {
        let mut c = base_cfg(prop, 3, &[0, 1], A_REACH & !A_CONVERT);
        c.kinds = vec![d];
        c.deep = false;
        let uni = c.universe();
        let mk = |ex: &mut Explorer<H>| {
            for p in crate::probes::all_probes::<H>("C08-late-write", &uni) {
                ex.probes.push(p);
            }
        };
        run_closed::<H>(&mut out, &format!("late writes: references collected from iter_mut, iterator dropped, then a priority written ({})", if d { "DoublePriorityQueue" } else { "PriorityQueue" }), &c, &mk);
    }
    out
}

pub fn run_c14<H: HB>(tier: Tier) -> Outcome {
    let prop = "C14";
    let mut out = Outcome::new();
    let q = tier == Tier::Quick;
    let th = threads();
    let (k, m) = if q { (4u32, 2i32) } else { (4, 3) };
    let prios: Vec<i32> = (0..m).collect();
    let t0 = Instant::now();
    let mut cfg = base_cfg(prop, k, &prios, A_REACH | A_CLONE | A_CAPACITY | A_RETAIN | A_ITER_MUT | A_ITER_MUT_BACK);
    cfg.root_vec_len = if q { 2 } else { 1 };
    cfg.deep = false;
    cfg.merge_check |= !q;
    let universe = cfg.universe();
    let mut ex = Explorer::<H>::new(&cfg);
    for p in crate::probes::all_probes::<H>(prop, &universe) {
        ex.probes.push(p);
    }
    ex.collect = Some(Default::default());
    ex.run_closed();
    out.absorb(&format!("E1 closed ({k} items x {m} priorities) + clone independence from every state"), &ex, t0);
    if !out.violations.is_empty() {
        return out;
    }
    let nodes = ex.collect.take().unwrap().into_inner().unwrap();
    let t0 = Instant::now();
    let (cases, viol) = crate::post::par_each(nodes.len(), th, |i| {
        let a = &nodes[i];
        let mut c = 0;
        for b in &nodes {
            if !crate::post::same_kind(&a.q, &b.q) {
                continue;
            }
            c += 1;
            crate::post::eq_pair(&a.q, &b.q).map_err(|e| {
                let mut cs = crate::post::node_case(prop, a, &universe, None, "eq-pair", e);
                cs.aux = Some((b.root.0, b.root.1.clone(), b.ops()));
                cs
            })?;
            crate::crash::set_case(|| {
                let mut cs = crate::post::node_case(prop, a, &universe, None, "clone_from-pair", String::new());
                cs.aux = Some((b.root.0, b.root.1.clone(), b.ops()));
                cs
            });
            crate::post::clone_from_pair(&a.q, &b.q, &universe).map_err(|e| {
                let mut cs = crate::post::node_case(prop, a, &universe, None, "clone_from-pair", e);
                cs.aux = Some((b.root.0, b.root.1.clone(), b.ops()));
                cs
            })?;
        }
        Ok(c)
    });
    absorb_post(&mut out, "== / != and target.clone_from(&source) on all ordered pairs of explored states of the same kind (all arrangements, capacities, histories)", cases, viol, t0, json!({"states": nodes.len()}));
    if !out.violations.is_empty() {
        return out;
    }
    // across hashers: the same exploration with the all-colliding hasher, all cross pairs
    let t0 = Instant::now();
    let (k2, m2) = if q { (3u32, 2i32) } else { (3, 3) };
    let prios2: Vec<i32> = (0..m2).collect();
    let mut cfg2 = base_cfg(prop, k2, &prios2, A_REACH);
    cfg2.deep = false;
    let mut exa = Explorer::<H>::new(&cfg2);
    exa.collect = Some(Default::default());
    exa.run_closed();
    let mut exb = Explorer::<CollideAll>::new(&cfg2);
    exb.collect = Some(Default::default());
    exb.run_closed();
    let na = exa.collect.take().unwrap().into_inner().unwrap();
    let nb = exb.collect.take().unwrap().into_inner().unwrap();
    out.absorb("E1 closed, fnv hasher (for cross-hasher equality)", &exa, t0);
    out.absorb("E1 closed, all-colliding hasher (for cross-hasher equality)", &exb, t0);
    let uni2 = cfg2.universe();
    let t0 = Instant::now();
    let (cases, viol) = crate::post::par_each(na.len(), th, |i| {
        let a = &na[i];
        let mut c = 0;
        for b in &nb {
            if a.q.double() != b.q.double() {
                continue;
            }
            c += 1;
            crate::post::eq_cross(&a.q, &b.q).map_err(|e| crate::post::node_case(prop, a, &uni2, None, "eq-cross-hasher", e))?;
        }
        Ok(c)
    });
    absorb_post(&mut out, "== across hashers: all pairs (fnv-hashed state, all-colliding-hashed state)", cases, viol, t0, json!({"states_a": na.len(), "states_b": nb.len()}));
    if !out.violations.is_empty() {
        return out;
    }
    // clone independence on large queues: seeds, and every state one operation away
    for n in if q { vec![40usize, 65, 128] } else { vec![40, 64, 65, 127, 128, 129, 256, 257, 513, 1024] } {
        let mut c = seeds_cfg(prop, n, &rel_large(n), A_REACH | A_CLONE | A_RETAIN);
        c.large = true;
        c.deep = false;
        let pu: Vec<u32> = vec![0, n as u32 / 2, n as u32 - 1];
        let mk = |ex: &mut Explorer<H>| {
            for p in crate::probes::all_probes::<H>(prop, &pu) {
                ex.probes.push(p);
            }
        };
        run_seeds::<H>(&mut out, &format!("E2-large F_large({n}) depth 0: clone independence from every seed; clone/clone_from as transitions"), &c, f_large(n), if n <= 65 { 1 } else { 0 }, &mk);
        if !out.violations.is_empty() {
            return out;
        }
    }
    // clone / clone_from / == on other element types (heap-owning, zero-sized, ...)
    type_matrix(&mut out, prop);
    if !out.violations.is_empty() {
        return out;
    }
    // larger queues built independently: different histories, different hasher instances
    // (every std RandomState instance has its own keys), different hasher types
    let t0 = Instant::now();
    let mut cases = 0u64;
    let mut viol = vec![];
    'outer: for n in if q { vec![15usize, 16, 17, 33, 64, 65, 129, 257] } else { vec![15, 16, 17, 18, 31, 32, 33, 64, 65, 127, 128, 129, 255, 256, 257, 512, 513, 1024, 1025, 2049] } {
        for seed in if n > 40 { f_large(n) } else { f_struct(n) } {
            let Root::FromVec(pairs) = &seed else { continue };
            for d in [false, true] {
                cases += 1;
                let r = big_equality_c14(pairs, d);
                if let Err(e) = r {
                    viol.push(Case { prop: prop.into(), hasher: StdRandom::NAME.into(), double: d, root: seed.clone(), ops: vec![], last: None, probe: Some("big-equality".into()), detail: e, universe: vec![], aux: None, trail: vec![], params: vec![] });
                    break 'outer;
                }
            }
        }
    }
    absorb_post(&mut out, "== on queues of 15..257 (2049) elements built independently (From<Vec> / pushes in reverse order / FromIterator with another hasher type; separate RandomState instances), then one priority changed / one item removed", cases, viol, t0, json!({}));
    out
}

/// C18: == between independently built queues under every pairing of hasher types (also used by replay).
pub fn big_equality_hashers(pairs: &[Pair], d: bool) -> Result<(), String> {
    if d {
        big_equality::<DPQ<StdRandom>, DPQ<StdRandom>, DPQ<CollideAll>>(pairs, |a, b| a == b, |a, b| a == b, |a, b| b == a)
            .and_then(|_| big_equality::<DPQ<Seeded>, DPQ<Seeded>, DPQ<FixedSip>>(pairs, |a, b| a == b, |a, b| a == b, |a, b| b == a))
            .and_then(|_| big_equality::<DPQ<FnvBuild>, DPQ<FnvBuild>, DPQ<StdRandom>>(pairs, |a, b| a == b, |a, b| a == b, |a, b| b == a))
            .and_then(|_| big_equality::<DPQ<CollideAll>, DPQ<CollideAll>, DPQ<FnvBuild>>(pairs, |a, b| a == b && b == a, |a, b| a == b, |a, b| b == a))
            .and_then(|_| big_equality::<DPQ<CollideSome>, DPQ<CollideSome>, DPQ<CollideAll>>(pairs, |a, b| a == b && b == a, |a, b| a == b, |a, b| b == a))
    } else {
        big_equality::<PQ<StdRandom>, PQ<StdRandom>, PQ<CollideAll>>(pairs, |a, b| a == b, |a, b| a == b, |a, b| b == a)
            .and_then(|_| big_equality::<PQ<Seeded>, PQ<Seeded>, PQ<FixedSip>>(pairs, |a, b| a == b, |a, b| a == b, |a, b| b == a))
            .and_then(|_| big_equality::<PQ<FnvBuild>, PQ<FnvBuild>, PQ<StdRandom>>(pairs, |a, b| a == b, |a, b| a == b, |a, b| b == a))
            .and_then(|_| big_equality::<PQ<CollideAll>, PQ<CollideAll>, PQ<FnvBuild>>(pairs, |a, b| a == b && b == a, |a, b| a == b, |a, b| b == a))
            .and_then(|_| big_equality::<PQ<CollideSome>, PQ<CollideSome>, PQ<CollideAll>>(pairs, |a, b| a == b && b == a, |a, b| a == b, |a, b| b == a))
    }
}

/// C14: == between independently built queues (also used by replay).
pub fn big_equality_c14(pairs: &[Pair], d: bool) -> Result<(), String> {
    let n = pairs.len();
    let r = if d { big_equality::<DPQ<StdRandom>, DPQ<StdRandom>, DPQ<FnvBuild>>(pairs, |a, b| a == b, |a, b| a == b, |a, b| b == a) } else { big_equality::<PQ<StdRandom>, PQ<StdRandom>, PQ<FnvBuild>>(pairs, |a, b| a == b, |a, b| a == b, |a, b| b == a) };
    // hashers under which many (all) items collide: equality may not lean on hash values
    r.and_then(|_| {
        if n > 129 {
            Ok(())
        } else if d {
            big_equality::<DPQ<CollideAll>, DPQ<CollideAll>, DPQ<CollideSome>>(pairs, |a, b| a == b && b == a, |a, b| a == b, |a, b| b == a)
                .and_then(|_| big_equality::<DPQ<CollideSome>, DPQ<CollideSome>, DPQ<StdRandom>>(pairs, |a, b| a == b && b == a, |a, b| a == b, |a, b| b == a))
        } else {
            big_equality::<PQ<CollideAll>, PQ<CollideAll>, PQ<CollideSome>>(pairs, |a, b| a == b && b == a, |a, b| a == b, |a, b| b == a)
                .and_then(|_| big_equality::<PQ<CollideSome>, PQ<CollideSome>, PQ<StdRandom>>(pairs, |a, b| a == b && b == a, |a, b| a == b, |a, b| b == a))
        }
    })
}

/// a: From<Vec>, b: pushes in reverse order (same hasher type, own instance), c: FromIterator with
/// another hasher type. All equal; after one change unequal.
pub fn big_equality<A: QueueLike, B: QueueLike, C: QueueLike>(pairs: &[Pair], ab: impl Fn(&A, &B) -> bool, ac: impl Fn(&A, &C) -> bool, ca: impl Fn(&A, &C) -> bool) -> Result<(), String> {
    let a = A::q_from_vec(pairs.iter().map(|&p| mk(p)).collect());
    let mut b = B::q_with_hasher();
    for &p in pairs.iter().rev() {
        let (i, pr) = mk(p);
        b.q_push(i, pr);
    }
    let c = C::q_from_iter(pairs.iter().map(|&p| mk(p)));
    if !ab(&a, &b) {
        return Err(format!("two queues of {} elements with the same contents, built in different orders with separate hasher instances, compare unequal", pairs.len()));
    }
    if !ac(&a, &c) || !ca(&a, &c) {
        return Err(format!("two queues of {} elements with the same contents but different hasher types compare unequal", pairs.len()));
    }
    let (k0, _, p0) = pairs[pairs.len() / 2];
    let mut b2 = b.clone();
    b2.q_change_priority_b(&Key(k0), Prio::new(p0 + 1));
    if ab(&a, &b2) {
        return Err(format!("queues of {} elements differing in the priority of item {k0} compare equal", pairs.len()));
    }
    let mut b3 = b.clone();
    b3.q_remove_b(&Key(k0));
    if ab(&a, &b3) {
        return Err(format!("queues of {} and {} elements compare equal", pairs.len(), pairs.len() - 1));
    }
    b3.q_push(Item::new(100_000, 0), Prio::new(p0));
    if ab(&a, &b3) {
        return Err(format!("queues of {} elements differing in one item compare equal", pairs.len()));
    }
    Ok(())
}

pub fn run_c17<H: HB>(tier: Tier) -> Outcome {
    let prop = "C17";
    let mut out = Outcome::new();
    let q = tier == Tier::Quick;
    let (k, m) = if q { (3u32, 2i32) } else { (3, 3) };
    let prios: Vec<i32> = (0..m).collect();
    let mut cfg = base_cfg(prop, k, &prios, A_REACH | A_CAPACITY | A_CAPACITY_HUGE | A_CLEAR_DRAIN);
    cfg.deep = true;
    cfg.merge_check |= !q;
    let universe = cfg.universe();
    let mk = |ex: &mut Explorer<H>| {
        for p in crate::probes::all_probes::<H>(prop, &universe) {
            ex.probes.push(p);
        }
    };
    run_closed::<H>(&mut out, &format!("E1 closed ({k} items x {m} priorities) with every capacity call as a transition + twin continuations from every state"), &cfg, &mk);
    if !out.violations.is_empty() {
        return out;
    }
    {
        let t0 = Instant::now();
        let (ml, ma) = if q { (40, 40) } else { (130, 70) };
        let mut cases = 0;
        let mut viol = vec![];
        for d in [false, true] {
            let r = if d { capacity_grid::<DPQ<H>>(ml, ma) } else { capacity_grid::<PQ<H>>(ml, ma) };
            match r {
                Ok(c) => cases += c,
                Err((hist, e)) => viol.push(Case { prop: prop.into(), hasher: H::NAME.into(), double: d, root: Root::New, ops: hist[..hist.len() - 1].to_vec(), last: hist.last().cloned(), probe: Some("capacity-grid".into()), detail: e, universe: vec![], aux: None, trail: vec![], params: vec![] }),
            }
        }
        absorb_post(&mut out, &format!("capacity grid: queues of 0..={ml} elements grown by pushes (plain / shrunk then pushed / grown then popped) x every reservation call x every amount 0..={ma}"), cases, viol, t0, json!({}));
        if !out.violations.is_empty() {
            return out;
        }
        let t0 = Instant::now();
        let mut cases = 0;
        let mut viol = vec![];
        for d in [false, true] {
            crate::crash::set_case(|| Case { prop: prop.into(), hasher: H::NAME.into(), double: d, root: Root::New, ops: vec![], last: None, probe: Some("alloc-failure-grid".into()), detail: String::new(), universe: vec![], aux: None, trail: vec![], params: vec![] });
            let r = if d { alloc_failure_grid::<DPQ<H>>() } else { alloc_failure_grid::<PQ<H>>() };
            match r {
                Ok(c) => cases += c,
                Err((hist, e)) => viol.push(Case { prop: prop.into(), hasher: H::NAME.into(), double: d, root: Root::New, ops: hist[..hist.len() - 1].to_vec(), last: hist.last().cloned(), probe: Some("alloc-failure-grid".into()), detail: e, universe: vec![], aux: None, trail: vec![], params: vec![] }),
            }
        }
        absorb_post(&mut out, "allocation-failure grid: try_reserve / try_reserve_exact with the k-th allocation failing, k = 0..7, on queues of 0..33 elements (plain / shrunk) x 4 amounts", cases, viol, t0, json!({}));
        if !out.violations.is_empty() {
            return out;
        }
        let t0 = Instant::now();
        let seeds: Vec<Root> = if q { f_bin(8).into_iter().step_by(5).collect() } else { f_bin(8).into_iter().chain(f_seg(16)).chain(f_struct(33)).collect() };
        let th = threads();
        let (cases, viol) = crate::post::par_each(seeds.len() * 2, th, |i| {
            let d = i % 2 == 1;
            let Root::FromVec(pairs) = &seeds[i / 2] else { return Ok(0) };
            let mk_case = |e: String| Case { prop: prop.into(), hasher: H::NAME.into(), double: d, root: seeds[i / 2].clone(), ops: vec![], last: None, probe: Some("extend-twin".into()), detail: e, universe: vec![], aux: None, trail: vec![], params: vec![] };
            crate::crash::set_case(|| mk_case(String::new()));
            let r = std::panic::catch_unwind(|| if d { extend_twin::<DPQ<H>>(pairs) } else { extend_twin::<PQ<H>>(pairs) });
            match r {
                Ok(Ok(c)) => Ok(c),
                Ok(Err(e)) => Err(mk_case(e)),
                Err(e) => Err(mk_case(format!("panicked: {}", panic_text(&e)))),
            }
        });
        absorb_post(&mut out, "extend twin: receivers of 8 (16, 33) elements with ties x capacity call x large extends x hints: contents and extraction order (ties included) as on the untouched queue", cases, viol, t0, json!({"receivers": seeds.len()}));
        if !out.violations.is_empty() {
            return out;
        }
    }
    for n in if q { vec![40usize, 65, 128] } else { vec![40, 64, 65, 127, 128, 129, 256, 257, 513, 1024] } {
        let mut c = seeds_cfg(prop, n, &rel_large(n), A_CAPACITY | A_POP | A_PUSH | A_REMOVE);
        c.large = true;
        c.deep = n <= 129;
        let pu: Vec<u32> = vec![0, n as u32 / 2, n as u32 - 1];
        let _ = &pu;
        let mk = |ex: &mut Explorer<H>| {
            // a reduced continuation menu: two items (first and last slot), priorities below and above everything
            ex.probes.push(Box::new(crate::probes::CapacityTwin { universe: vec![0, n as u32 - 1], prios: vec![5, 10 * n as i32 + 5], huge: false }));
        };
        if n <= if q { 40 } else { 129 } {
            run_seeds::<H>(&mut out, &format!("E2-large F_large({n}) depth 0: twin continuations from every seed"), &c, f_large(n), 0, &mk);
            if !out.violations.is_empty() {
                return out;
            }
        }
        run_seeds::<H>(&mut out, &format!("E2-large F_large({n}): capacity calls and single-element operations (depth 1)"), &c, f_large(n), 1, &no_probes);
        if !out.violations.is_empty() {
            return out;
        }
    }
    for n in if q { vec![8usize, 16] } else { vec![7, 8, 9, 16, 17, 33] } {
        let mut c = seeds_cfg(prop, n, &REL_BIN, A_CAPACITY | A_CAPACITY_HUGE | A_POP | A_PUSH);
        c.deep = true;
        let seeds = if n <= 8 { f_bin(n) } else { f_seg(n) };
        let depth = if (q && n > 8) || n > 17 { 1 } else { 2 };
        run_seeds::<H>(&mut out, &format!("E2 seeds of {n} elements: capacity calls and every operation (depth {depth})"), &c, seeds, depth, &no_probes);
        if !out.violations.is_empty() {
            return out;
        }
    }
    // reserve / try_reserve / shrink_to_fit as transitions on other element types (zero-sized, wide, heap-owning)
    type_matrix(&mut out, prop);
    out
}

/// C17: a fully enumerated grid of (history shape, length, amount, call): queues grown by pushes
/// (so that the three internal tables have their natural, different capacities), optionally
/// shrunk and pushed again, then every reservation call with every amount 0..=A.
pub fn replay_extend_twin(double: bool, pairs: &[Pair]) -> Result<(), String> {
    if double { extend_twin::<DPQ<FnvBuild>>(pairs).map(|_| ()) } else { extend_twin::<PQ<FnvBuild>>(pairs).map(|_| ()) }
}

pub fn replay_alloc_failure(double: bool) -> Result<(), String> {
    let r = if double { alloc_failure_grid::<DPQ<FnvBuild>>() } else { alloc_failure_grid::<PQ<FnvBuild>>() };
    r.map(|_| ()).map_err(|e| e.1)
}

/// Replay of one capacity-grid case: the history is executed on ONE queue, never on clones.
pub fn replay_capacity_case<Q: QueueLike>(ops: &[Op], last: &Op) -> Result<(), String> {
    let mut q = Q::q_new();
    let mut m = Model::new();
    let mut un = false;
    for op in ops {
        step(&mut q, op, &mut m, &mut un)?;
    }
    let r = std::panic::catch_unwind(std::panic::AssertUnwindSafe(|| step(&mut q, last, &mut m, &mut un)));
    match r {
        Err(e) => return Err(format!("{last:?} on a queue of {} panicked: {}", m.len(), panic_text(&e))),
        Ok(Err(e)) => return Err(e),
        Ok(Ok(_)) => {}
    }
    let s = q.snap();
    check_state(&q, &s, &m, false, &[]).map_err(|e| format!("after {last:?}: {e}"))
}

fn capacity_grid<Q: QueueLike>(max_len: usize, max_amount: usize) -> Result<u64, (Vec<Op>, String)> {
    let mut cases = 0;
    for shape in 0..3 {
        for len in 0..=max_len {
            // shape 0: len pushes; 1: len pushes, shrink_to_fit, one more push; 2: 2*len pushes, len pops
            let mut hist: Vec<Op> = vec![];
            let total = if shape == 2 { 2 * len } else { len };
            for i in 0..total {
                hist.push(Op::Push(i as u32, 0, (i * 7 % 11) as i32));
            }
            if shape == 1 {
                hist.push(Op::ShrinkToFit);
                hist.push(Op::Push(1000, 0, 3));
            }
            if shape == 2 {
                for _ in 0..len {
                    hist.push(Op::PopHi);
                }
            }
            let mut un = false;
            // NOT cloned: a clone has freshly sized tables, the capacities that matter here come
            // from the growth history, so the queue is rebuilt for every case
            let build = |hist: &Vec<Op>| -> Result<(Q, Model), (Vec<Op>, String)> {
                let mut base = Q::q_new();
                let mut m = Model::new();
                let mut un = false;
                for op in hist {
                    step(&mut base, op, &mut m, &mut un).map_err(|e| (hist.clone(), e))?;
                }
                Ok((base, m))
            };
            for amount in 0..=max_amount {
                for op in [Op::Reserve(amount), Op::ReserveExact(amount), Op::TryReserve(amount), Op::TryReserveExact(amount)] {
                    cases += 1;
                    let (mut q, m) = build(&hist)?;
                    let mut mm = m.clone();
                    let mut h2 = hist.clone();
                    h2.push(op.clone());
                    let r = std::panic::catch_unwind(std::panic::AssertUnwindSafe(|| step(&mut q, &op, &mut mm, &mut un)));
                    match r {
                        Err(e) => return Err((h2, format!("{op:?} on a queue of {} panicked: {}", m.len(), panic_text(&e)))),
                        Ok(Err(e)) => return Err((h2, e)),
                        Ok(Ok(_)) => {}
                    }
                    let s = q.snap();
                    check_state(&q, &s, &m, false, &[]).map_err(|e| (h2.clone(), format!("after {op:?}: {e}")))?;
                    // and the queue keeps working: fill the reserved room
                    for j in 0..amount.min(6) {
                        let o = Op::Push(5000 + j as u32, 0, j as i32);
                        step(&mut q, &o, &mut mm, &mut un).map_err(|e| (h2.clone(), format!("push after {op:?}: {e}")))?;
                    }
                }
            }
        }
    }
    Ok(cases)
}

/// C17: `try_reserve*` with an allocation failure injected at the k-th allocation it makes (every k):
/// it must return Err (never abort or panic), leave the contents unchanged and the queue usable.
fn alloc_failure_grid<Q: QueueLike>() -> Result<u64, (Vec<Op>, String)> {
    let mut cases = 0;
    for len in [0usize, 1, 2, 3, 5, 9, 17, 33] {
        for shrunk in [false, true] {
            let mut hist: Vec<Op> = (0..len).map(|i| Op::Push(i as u32, 0, (i * 7 % 11) as i32)).collect();
            if shrunk {
                hist.push(Op::ShrinkToFit);
            }
            for amount in [1usize, 7, 100, 1000] {
                for exact in [false, true] {
                    for k in 0..8i64 {
                        cases += 1;
                        let mut q = Q::q_new();
                        let mut m = Model::new();
                        let mut un = false;
                        for op in &hist {
                            step(&mut q, op, &mut m, &mut un).map_err(|e| (hist.clone(), e))?;
                        }
                        let op = if exact { Op::TryReserveExact(amount) } else { Op::TryReserve(amount) };
                        let mut h2 = hist.clone();
                        h2.push(op.clone());
                        crate::crash::set_extra(format!("allocation failure injected at allocation #{k} of {op:?} on a queue of {len}"));
                        arm_alloc_failure(k);
                        let r = if exact { q.q_try_reserve_exact(amount) } else { q.q_try_reserve(amount) };
                        let fired = disarm_alloc_failure();
                        crate::crash::set_extra(String::new());
                        if fired && r.is_ok() {
                            // the failed allocation may have been one the call could do without only if
                            // the promised capacity is there all the same
                            if q.q_capacity() < len + amount {
                                return Err((h2, format!("{op:?} returned Ok although allocation #{k} failed and capacity() = {} < {len} + {amount}", q.q_capacity())));
                            }
                        }
                        if !fired && r.is_err() {
                            return Err((h2, format!("{op:?} failed without any allocation failing")));
                        }
                        let s = q.snap();
                        check_state(&q, &s, &m, false, &[]).map_err(|e| (h2.clone(), format!("after a failed {op:?} (allocation #{k}): {e}")))?;
                        let mut mm = m.clone();
                        for j in 0..3 {
                            step(&mut q, &Op::Push(9000 + j, 0, j as i32), &mut mm, &mut un).map_err(|e| (h2.clone(), format!("push after a failed {op:?}: {e}")))?;
                        }
                        step(&mut q, &Op::PopHi, &mut mm, &mut un).map_err(|e| (h2.clone(), format!("pop after a failed {op:?}: {e}")))?;
                    }
                }
            }
        }
    }
    Ok(cases)
}

/// C17: a capacity call before a large extend must not change anything observable afterwards,
/// tie order included (which internal strategy extend picks may not depend on capacity).
fn extend_twin<Q: QueueLike>(seed: &[Pair]) -> Result<u64, String> {
    use crate::probes::drain_order;
    let mut cases = 0;
    let base = Q::q_from_vec(seed.iter().map(|&p| mk(p)).collect());
    let n = seed.len() as u32;
    let mut seqs = long_seqs(n, &[10, 20]);
    seqs.push((0..100u32).map(|i| (n + i, 0, if i % 3 == 0 { 20 } else { 10 })).collect());
    seqs.push((0..9u32).map(|i| (n + i, 0, 20)).collect());
    for cap in [Op::Reserve(1000), Op::ReserveExact(500), Op::TryReserve(300), Op::ShrinkToFit, Op::Reserve(17)] {
        for seq in &seqs {
            for hint in [Hint { lo: seq.len(), hi: Some(seq.len()) }, Hint { lo: seq.len(), hi: None }, Hint { lo: 0, hi: None }] {
                cases += 1;
                let mut a = base.clone();
                let mut b = base.clone();
                let mut ma = model_of(&a.snap());
                let mut mb = ma.clone();
                let (mut ua, mut ub) = (false, false);
                step(&mut b, &cap, &mut mb, &mut ub)?;
                let op = Op::Extend(seq.clone(), hint);
                step(&mut a, &op, &mut ma, &mut ua)?;
                step(&mut b, &op, &mut mb, &mut ub).map_err(|e| format!("after {cap:?}: {e}"))?;
                if model_of(&a.snap()) != model_of(&b.snap()) {
                    return Err(format!("after {cap:?}, extend of {} pairs (hint {hint:?}) gives different contents than on the untouched queue", seq.len()));
                }
                if drain_order(&a, true) != drain_order(&b, true) || (Q::DOUBLE && drain_order(&a, false) != drain_order(&b, false)) {
                    return Err(format!("after {cap:?}, extend of {} pairs (hint {hint:?}) on {:?} gives a different order of extraction than on the untouched queue (ties are resolved differently: the strategy chosen by extend depends on the capacity)", seq.len(), seed));
                }
            }
        }
    }
    Ok(cases)
}

pub fn run_c18(tier: Tier) -> Outcome {
    let prop = "C18";
    let mut out = Outcome::new();
    let q = tier == Tier::Quick;
    let (k, m) = if q { (3u32, 2i32) } else { (3, 3) };
    let _ = q;
    let prios: Vec<i32> = (0..m).collect();
    let alpha = A_CORE | A_BULK | A_CLONE | A_BORROWED | A_PAYLOAD;
    let mut cfg = base_cfg(prop, k, &prios, alpha);
    // appended queues of up to 2 elements: longer than the receiver and sharing an item with it
    // (each appended queue is built with its own hasher instance: different RandomState keys)
    cfg.append_max = 2;
    // constructors from every vector of <= 3 pairs (a repeated item followed by another one needs 3):
    // From<Vec> / FromIterator build their own hasher with H::default()
    cfg.root_vec_len = 3;
    let mut fps: Vec<(String, String, u64, u64)> = vec![];
    macro_rules! one {
        ($H:ty, $label:expr) => {{
            let before = out.layers.len();
            run_closed::<$H>(&mut out, &format!("E1 closed ({k} items x {m} priorities), full alphabet, hasher = {}", $label), &cfg, &no_probes);
            if let Some(l) = out.layers.get(before) {
                fps.push(($label.to_string(), l["transition_graph_fingerprint"].as_str().unwrap_or("").to_string(), l["unique_states"].as_u64().unwrap_or(0), l["transitions"].as_u64().unwrap_or(0)));
            }
            if !out.violations.is_empty() {
                return out;
            }
        }};
    }
    one!(FixedSip, "sip with fixed key (BuildHasherDefault<DefaultHasher>)");
    one!(Seeded, "seeded by VERIF_SEED");
    one!(StdRandom, "std RandomState (run 1)");
    one!(StdRandom, "std RandomState (run 2)");
    one!(FnvBuild, "no_std-friendly fnv via with_default_hasher / with_hasher");
    one!(CollideAll, "all-colliding (every hash = 0)");
    one!(CollideSome, "partially colliding (4 hash classes)");
    // large queues under the degenerate hasher (every lookup walks one bucket) and RandomState
    {
        let alpha = A_CORE | A_RETAIN | A_CONVERT | A_BORROWED | A_EXTEND | A_APPEND | A_ITER_MUT | A_CLEAR_DRAIN;
        let sizes: Vec<usize> = if q { vec![40, 65] } else { vec![40, 64, 65, 128, 129] };
        run_large::<CollideAll>(&mut out, prop, &[false, true], alpha, &sizes, 0, &no_probes);
        if !out.violations.is_empty() {
            return out;
        }
        let sizes: Vec<usize> = if q { vec![40, 65, 128] } else { vec![40, 64, 65, 128, 129, 256, 257, 512, 1025] };
        run_large::<FnvBuild>(&mut out, prop, &[false, true], alpha, &sizes, 0, &no_probes);
        if !out.violations.is_empty() {
            return out;
        }
        run_large::<StdRandom>(&mut out, prop, &[false, true], alpha, &sizes, 0, &no_probes);
        if !out.violations.is_empty() {
            return out;
        }
    }
    // deep seeds under the degenerate hasher
    for n in if q { vec![8usize] } else { vec![8, 9, 16, 17] } {
        let mut c = seeds_cfg(prop, n, &REL_BIN, A_CORE | A_RETAIN | A_CONVERT | A_BORROWED | A_EXTEND | A_APPEND | A_ITER_MUT | A_CLEAR_DRAIN);
        c.deep = n <= 9;
        let seeds = if n <= 8 { f_bin(n) } else { f_seg(n) };
        run_seeds::<CollideAll>(&mut out, &format!("E2 seeds of {n} elements, all-colliding hasher, depth 1"), &c, seeds.clone(), 1, &no_probes);
        if !out.violations.is_empty() {
            return out;
        }
        run_seeds::<StdRandom>(&mut out, &format!("E2 seeds of {n} elements, std RandomState, depth 1"), &c, seeds, 1, &no_probes);
        if !out.violations.is_empty() {
            return out;
        }
    }
    // serde round trips under the colliding hashers (Deserialize builds its map with H::default())
    {
        fn rt<HH: HB>(out: &mut Outcome, prop: &'static str, label: &str) {
            let t0 = Instant::now();
            let cfg = base_cfg(prop, 3, &[0, 1], A_REACH | A_PAYLOAD);
            let mut ex = Explorer::<HH>::new(&cfg);
            ex.collect = Some(Default::default());
            ex.run_closed();
            let nodes = ex.collect.take().unwrap().into_inner().unwrap();
            let use_cfg = base_cfg(prop, 3, &[0, 1], A_PUSH | A_CHANGE | A_REMOVE | A_POP);
            let uni = cfg.universe();
            let (cases, viol) = crate::post::par_each(nodes.len(), threads(), |i| {
                let n = &nodes[i];
                let mm = model_of(&n.q.snap());
                crate::crash::set_case(|| crate::post::node_case(prop, n, &uni, None, "serde-round-trip", String::new()));
                let r = std::panic::catch_unwind(std::panic::AssertUnwindSafe(|| crate::with_q!(&n.q, x => crate::c15::round_trip(x, &mm, &use_cfg))));
                match r {
                    Ok(Ok(c)) => Ok(c),
                    Ok(Err(e)) => Err(crate::post::node_case(prop, n, &uni, None, "serde-round-trip", e)),
                    Err(e) => Err(crate::post::node_case(prop, n, &uni, None, "serde-round-trip", format!("panicked: {}", panic_text(&e)))),
                }
            });
            absorb_post(out, &format!("serde round trip of every E1 state (3 items x 2 priorities) under the {label} hasher: 3 channels x both kinds"), cases, viol, t0, json!({"states": nodes.len()}));
        }
        rt::<CollideAll>(&mut out, prop, "all-colliding");
        if !out.violations.is_empty() {
            return out;
        }
        rt::<CollideSome>(&mut out, prop, "partially colliding");
        if !out.violations.is_empty() {
            return out;
        }
    }
    // == must not depend on the hasher either: independently built queues, separate instances,
    // different hasher types
    {
        let t0 = Instant::now();
        let mut cases = 0u64;
        let mut viol = vec![];
        'outer: for n in [5usize, 15, 16, 17, 33] {
            for seed in f_struct(n) {
                let Root::FromVec(pairs) = &seed else { continue };
                for d in [false, true] {
                    cases += 5;
                    let r = big_equality_hashers(pairs, d);
                    if let Err(e) = r {
                        viol.push(Case { prop: prop.into(), hasher: StdRandom::NAME.into(), double: d, root: seed.clone(), ops: vec![], last: None, probe: Some("big-equality-hashers".into()), detail: e, universe: vec![], aux: None, trail: vec![], params: vec![] });
                        break 'outer;
                    }
                }
            }
        }
        absorb_post(&mut out, "== between independently built queues of 5..33 elements: separate RandomState instances, seeded vs fixed sip, fnv vs RandomState, RandomState vs all-colliding, all-colliding vs all-colliding (different insertion orders), partially colliding (4 hash classes)", cases, viol, t0, json!({}));
        if !out.violations.is_empty() {
            return out;
        }
    }
    let identical = fps.windows(2).all(|w| w[0].1 == w[1].1 && w[0].2 == w[1].2 && w[0].3 == w[1].3);
    out.extra.insert("transition_graphs_identical_across_hashers".into(), json!(identical));
    out.extra.insert("graph_fingerprints".into(), json!(fps.iter().map(|f| json!({"hasher": f.0, "fingerprint": f.1, "states": f.2, "transitions": f.3})).collect::<Vec<_>>()));
    out
}

pub fn run_property(prop: &str, tier: Tier) -> Outcome {
    match prop {
        "C05" => crate::cost::run_c05(tier),
        "C08" => run_c08::<FnvBuild>(tier),
        "C14" => run_c14::<FnvBuild>(tier),
        "C17" => run_c17::<FnvBuild>(tier),
        "C18" => run_c18(tier),
        "C10" => run_c10::<FnvBuild>(tier),
        "C07" => run_c07::<FnvBuild>(tier),
        "C15" => crate::c15::run_c15::<FnvBuild>(tier),
        "C06" => run_probe_property::<FnvBuild>("C06", tier),
        "C09" => run_probe_property::<FnvBuild>("C09", tier),
        "C13" => run_probe_property::<FnvBuild>("C13", tier),
        "C16" => run_probe_property::<FnvBuild>("C16", tier),
        "C01" => run_history_property::<FnvBuild>("C01", tier),
        "C02" => run_history_property::<FnvBuild>("C02", tier),
        "C03" => run_history_property::<FnvBuild>("C03", tier),
        "C04" => run_history_property::<FnvBuild>("C04", tier),
        "C11" => run_history_property::<FnvBuild>("C11", tier),
        "C12" => run_history_property::<FnvBuild>("C12", tier),
        _ => panic!("unknown property {prop}"),
    }
}

pub fn level_text(prop: &str) -> &'static str {
    let _ = prop;
    "model_checking"
}

pub fn explanation(prop: &str) -> String {
    format!("explicit-state exploration of the real crate for {prop}: every transition is executed on the implementation and compared with a reference map in lock-step; counts are per layer in `layers`")
}

pub fn assumptions(_prop: &str) -> Vec<String> {
    vec![
        "the read-only hook `verif_snapshot` reports the real tables (cross-checked against the public API: len, get, iter, peek, Debug order)".into(),
        "bounded universe: see the per-layer bounds; behaviours needing more distinct items/priorities than the bound are not covered".into(),
        "user code is well behaved (total Ord, consistent Hash/Eq) except where a fault is injected deliberately".into(),
    ]
}

/// Reduced-bound enumerations that are cheap enough to run under Miri (thorough tier of
/// C04/C09/C10/C13): the enumeration is the same code, Miri only monitors each execution for
/// out-of-bounds / use-after-free / uninitialised reads / invalid values.
pub fn run_miri(prop: &str) -> Outcome {
    type H = FnvBuild;
    let mut out = Outcome::new();
    let prios = [0, 1];
    match prop {
        "C04" => {
            let mut cfg = base_cfg("C04", 2, &prios[..1], A_PUSH | A_CHANGE | A_REMOVE | A_POP | A_POP_IF | A_RETAIN | A_ITER_MUT | A_ITER_MUT_BACK | A_ITER_MUT_FORGET | A_CLEAR_DRAIN | A_DRAIN_FORGET | A_CONVERT | A_APPEND | A_PEEK_MUT);
            cfg.threads = 1;
            cfg.deep = false;
            cfg.root_vec_len = 1;
            run_closed::<H>(&mut out, "miri: E1 closed (2 items x 2 priorities), union alphabet", &cfg, &no_probes);
        }
        "C09" | "C13" => {
            let p: &'static str = if prop == "C09" { "C09" } else { "C13" };
            let mut cfg = base_cfg(p, 2, &prios, A_REACH);
            cfg.threads = 1;
            cfg.deep = false;
            let uni = cfg.universe();
            let pm = if prop == "C09" { "C09m" } else { "C13m" };
            let mk = |ex: &mut Explorer<H>| {
                for pr in crate::probes::all_probes::<H>(pm, &uni) {
                    ex.probes.push(pr);
                }
            };
            run_closed::<H>(&mut out, "miri: E1 closed (2 items x 2 priorities) + iterator programs from every state", &cfg, &mk);
            // one deeper shape
            let mut c = seeds_cfg(p, 4, &REL_BIN, A_REACH);
            c.threads = 1;
            c.deep = false;
            let uni = c.universe();
            let mk = |ex: &mut Explorer<H>| {
                for pr in crate::probes::all_probes::<H>(pm, &uni[..3]) {
                    ex.probes.push(pr);
                }
            };
            run_seeds::<H>(&mut out, "miri: 2 seeds of 4 elements + iterator programs", &c, f_bin(4).into_iter().skip(5).step_by(7).take(2).collect(), 0, &mk);
        }
        "C10" => {
            use crate::e3::*;
            let mut cfg = base_cfg("C10", 2, &prios[..1], A_PUSH | A_POP | A_REMOVE);
            cfg.threads = 1;
            cfg.kinds = vec![false, true];
            cfg.root_vec_len = 1;
            let mut ex = Explorer::<H>::new(&cfg);
            ex.collect = Some(Default::default());
            ex.run_closed();
            let nodes = ex.collect.take().unwrap().into_inner().unwrap();
            let t0 = Instant::now();
            out.absorb("miri: base states E1 (2 items x 2 priorities)", &ex, t0);
            let mut fault_cfg = cfg.clone();
            fault_cfg.alphabet = A_PUSH | A_CHANGE | A_REMOVE | A_POP | A_POP_IF | A_RETAIN | A_ITER_MUT | A_ITER_MUT_FORGET | A_DRAIN_FORGET | A_CLEAR_DRAIN | A_APPEND | A_CLONE | A_CONVERT;
            let mut cont = base_cfg("C10", 2, &prios[..1], A_PUSH | A_POP | A_REMOVE);
            cont.threads = 1;
            let e3cfg = E3Cfg { prop: "C10", fault_cfg, cont_cfg: cont, max_faults: 1, depth: 1, threads: 1, max_states: 100_000, max_wall_s: 3000.0 };
            let e3 = E3::<H>::new(&e3cfg);
            let bases: Vec<FNode<H>> = nodes.iter().map(|n| FNode { q: None, base_q: std::sync::Arc::new(n.q.clone()), faults: 0, depth: 0, base: std::sync::Arc::new((n.root.0, n.root.1.clone(), n.ops())), trail: None }).collect();
            e3.run(bases);
            let st = &e3.stats;
            let trans = st.transitions.load(AO::Relaxed);
            out.states += st.post_fault_states.load(AO::Relaxed);
            out.transitions += trans;
            out.validated += trans;
            out.layers.push(json!({"layer": "miri: E3 fault enumeration from every base state, continuation depth 1", "crash_points_enumerated": st.fault_points.load(AO::Relaxed), "unique_post_fault_states": st.post_fault_states.load(AO::Relaxed), "transitions_incl_continuations": trans}));
            let mut v = e3.violations.lock().unwrap();
            out.violations.extend(v.drain(..));
        }
        _ => {}
    }
    out
}

pub fn run_property_miri(prop: &str) -> Outcome {
    run_miri(prop)
}

pub fn has_miri_stage(prop: &str) -> bool {
    matches!(prop, "C04" | "C09" | "C10" | "C13")
}
