//! Per-property configuration: which explorers run, with which alphabet, bounds and probes.

use crate::explore::*;
use crate::ops::*;
use crate::queue::*;
use crate::types::*;
use serde_json::{json, Value};
use std::sync::atomic::Ordering as AO;
use std::time::Instant;

#[derive(Clone, Copy, PartialEq, Eq, Debug)]
pub enum Tier {
    Quick,
    Thorough,
}

pub struct Outcome {
    pub violations: Vec<Case>,
    pub states: u64,
    pub transitions: u64,
    pub validated: u64,
    pub samples: Vec<Value>,
    pub exhaustive: bool,
    pub layers: Vec<Value>,
    pub distinct_outcomes: u64,
    pub extra: serde_json::Map<String, Value>,
}

impl Outcome {
    pub fn new() -> Outcome {
        Outcome { violations: vec![], states: 0, transitions: 0, validated: 0, samples: vec![], exhaustive: true, layers: vec![], distinct_outcomes: 0, extra: Default::default() }
    }
    pub fn absorb<H: HB>(&mut self, label: &str, ex: &Explorer<H>, t0: Instant) {
        let st = &ex.stats;
        let states = st.states.load(AO::Relaxed);
        let trans = st.transitions.load(AO::Relaxed);
        let probe = st.probe_cases.load(AO::Relaxed);
        self.states += states;
        self.transitions += trans + probe;
        self.validated += trans + probe;
        let capped = st.capped.load(AO::Relaxed);
        if capped {
            self.exhaustive = false;
        }
        let outcomes = st.outcomes.lock().unwrap().len() as u64;
        self.distinct_outcomes += outcomes;
        for s in st.samples.lock().unwrap().iter().take(3) {
            self.samples.push(json!(s));
        }
        let opc: serde_json::Map<String, Value> = st.op_counts.lock().unwrap().iter().map(|(k, v)| (k.clone(), json!(v))).collect();
        self.layers.push(json!({
            "layer": label,
            "hasher": H::NAME,
            "unique_states": states,
            "transitions": trans,
            "probe_cases": probe,
            "roots": st.roots.load(AO::Relaxed),
            "bfs_levels": st.max_depth.load(AO::Relaxed),
            "max_len_reached": st.max_len.load(AO::Relaxed),
            "distinct_outcomes": outcomes,
            "documented_capacity_panics": st.documented_panics.load(AO::Relaxed),
            "merge_soundness_rechecks": st.merge_checked.load(AO::Relaxed),
            "state_cap_hit": capped,
            "transitions_per_operation": opc,
            "wall_s": t0.elapsed().as_secs_f64(),
        }));
        let mut v = ex.violations.lock().unwrap();
        for c in v.drain(..) {
            if !self.violations.iter().any(|x| x.signature() == c.signature()) {
                self.violations.push(c);
            }
        }
    }
}

pub fn threads() -> usize {
    std::env::var("VERIF_THREADS").ok().and_then(|s| s.parse().ok()).unwrap_or_else(|| std::thread::available_parallelism().map(|n| n.get()).unwrap_or(8))
}

pub fn base_cfg(prop: &'static str, k: u32, prios: &[i32], alphabet: u32) -> Cfg {
    Cfg {
        prop,
        kinds: vec![false, true],
        k,
        prios: prios.to_vec(),
        alphabet,
        root_vec_len: 2,
        append_max: 1,
        deep: true,
        max_states: 30_000_000,
        threads: threads(),
        record_costs: false,
        merge_check: false,
    }
}

// ---------------------------------------------------------------------------------------------
// seed families (E2)

pub const LOW: i32 = 10;
pub const HIGH: i32 = 20;

fn seed_root(prios: &[i32]) -> Root {
    Root::FromVec(prios.iter().enumerate().map(|(i, &p)| (i as u32, 0u8, p)).collect())
}

/// all 2^n vectors over {LOW, HIGH}
pub fn f_bin(n: usize) -> Vec<Root> {
    (0..(1u64 << n)).map(|mask| seed_root(&(0..n).map(|i| if mask >> i & 1 == 1 { HIGH } else { LOW }).collect::<Vec<_>>())).collect()
}
/// all 3^n vectors over {10, 20, 30}
pub fn f_tern(n: usize) -> Vec<Root> {
    let total = 3u64.pow(n as u32);
    (0..total)
        .map(|mut x| {
            let v: Vec<i32> = (0..n)
                .map(|_| {
                    let d = x % 3;
                    x /= 3;
                    10 + 10 * d as i32
                })
                .collect();
            seed_root(&v)
        })
        .collect()
}
/// all n! orders of the distinct priorities 10, 20, .., 10n
pub fn f_perm(n: usize) -> Vec<Root> {
    fn rec(cur: &mut Vec<i32>, used: &mut Vec<bool>, n: usize, out: &mut Vec<Root>) {
        if cur.len() == n {
            out.push(seed_root(cur));
            return;
        }
        for i in 0..n {
            if !used[i] {
                used[i] = true;
                cur.push(10 * (i as i32 + 1));
                rec(cur, used, n, out);
                cur.pop();
                used[i] = false;
            }
        }
    }
    let mut out = vec![];
    rec(&mut vec![], &mut vec![false; n], n, &mut out);
    out
}
/// two-breakpoint vectors over the 6 orders of three values: positions < a get x, < b get y, rest z
pub fn f_seg(n: usize) -> Vec<Root> {
    let vals = [10, 20, 30];
    let orders = [[0, 1, 2], [0, 2, 1], [1, 0, 2], [1, 2, 0], [2, 0, 1], [2, 1, 0]];
    let mut out = vec![];
    let mut seen = std::collections::HashSet::new();
    for o in orders {
        for a in 0..=n {
            for b in a..=n {
                let v: Vec<i32> = (0..n).map(|i| if i < a { vals[o[0]] } else if i < b { vals[o[1]] } else { vals[o[2]] }).collect();
                if seen.insert(v.clone()) {
                    out.push(seed_root(&v));
                }
            }
        }
    }
    out
}

pub fn seeds_cfg(prop: &'static str, n: usize, prios: &[i32], alphabet: u32) -> Cfg {
    let mut c = base_cfg(prop, n as u32 + 1, prios, alphabet);
    c.root_vec_len = 0;
    c
}

pub const REL_BIN: [i32; 5] = [5, 10, 15, 20, 25];
pub const REL_TERN: [i32; 7] = [5, 10, 15, 20, 25, 30, 35];

pub fn rel_perm(n: usize) -> Vec<i32> {
    let n = n as i32;
    let mut v = vec![5, 10 * n + 5, 10 * ((n + 1) / 2), 10 * ((n + 1) / 2) + 5, 10, 10 * n];
    v.sort();
    v.dedup();
    v
}

/// Run one seed family: every seed is a checked constructor transition; all ops to `depth`.
pub fn run_seeds<H: HB>(out: &mut Outcome, label: &str, cfg: &Cfg, seeds: Vec<Root>, depth: u64, mk_probes: &dyn Fn(&mut Explorer<H>)) {
    let t0 = Instant::now();
    let mut ex = Explorer::<H>::new(cfg);
    mk_probes(&mut ex);
    let mut roots = vec![];
    for &d in &cfg.kinds {
        for s in &seeds {
            roots.push((d, s.clone()));
        }
    }
    ex.run(roots, Some(depth));
    out.absorb(label, &ex, t0);
}

pub fn run_closed<H: HB>(out: &mut Outcome, label: &str, cfg: &Cfg, mk_probes: &dyn Fn(&mut Explorer<H>)) {
    let t0 = Instant::now();
    let mut ex = Explorer::<H>::new(cfg);
    mk_probes(&mut ex);
    ex.run_closed();
    out.absorb(label, &ex, t0);
}

fn no_probes<H: HB>(_: &mut Explorer<H>) {}

// ---------------------------------------------------------------------------------------------

pub const EXTREMES: [i32; 3] = [i32::MIN, 0, i32::MAX];

/// C01/C02/C03/C04/C11/C12 share the explorers and differ in alphabet, kinds and bounds.
pub fn run_history_property<H: HB>(prop: &'static str, tier: Tier) -> Outcome {
    let mut out = Outcome::new();
    let q = tier == Tier::Quick;
    let kinds: Vec<bool> = match prop {
        "C01" => vec![false],
        "C02" => vec![true],
        _ => vec![false, true],
    };
    let full = A_CORE | A_BULK | A_CLONE;
    let (alpha, k, m): (u32, u32, usize) = match prop {
        // order properties: the whole mutator alphabet (conversion pulls in the other kind)
        "C01" | "C02" => (full, if q { 3 } else { 4 }, 3),
        "C03" => (full | A_BORROWED | A_PAYLOAD, 3, if q { 2 } else { 3 }),
        "C04" => (full | A_ITER_MUT_BACK | A_ITER_MUT_FORGET | A_DRAIN_FORGET | A_CAPACITY | A_BORROWED, 3, if q { 2 } else { 3 }),
        "C11" => (A_PUSH | A_PUSH_INCDEC | A_REMOVE | A_POP | A_CHANGE, 4, 3),
        "C12" => (A_CORE | A_PAYLOAD | A_BORROWED | A_ITER_MUT | A_RETAIN | A_CONVERT | A_EXTEND, 3, 2),
        _ => unreachable!(),
    };
    let prios: Vec<i32> = (0..m as i32).collect();
    let mut cfg = base_cfg(prop, k, &prios, alpha);
    cfg.kinds = kinds.clone();
    if prop == "C01" || prop == "C02" {
        // the other kind is reachable through Convert; roots only of the property's kind
    }
    run_closed::<H>(&mut out, &format!("E1 closed ({k} items x {m} priorities)"), &cfg, &no_probes);
    if !out.violations.is_empty() {
        return out;
    }
    if matches!(prop, "C01" | "C02" | "C04") {
        // extreme values: same closure over {MIN, 0, MAX}
        let mut cfg2 = base_cfg(prop, if q { 2 } else { 3 }, &EXTREMES, alpha & !(A_RETAIN_MUT));
        cfg2.kinds = kinds.clone();
        run_closed::<H>(&mut out, "E1 closed, extreme priorities {i32::MIN,0,i32::MAX}", &cfg2, &no_probes);
        if !out.violations.is_empty() {
            return out;
        }
    }
    // E2: deep trees
    let seed_alpha = alpha & !(A_EXTEND | A_APPEND | A_CLONE | A_CAPACITY | A_PAYLOAD) | A_APPEND;
    let bin_sizes: Vec<usize> = if q { vec![7, 8, 9] } else { vec![7, 8, 9, 10, 11, 12, 13, 14, 15, 16] };
    for n in bin_sizes {
        let mut c = seeds_cfg(prop, n, &REL_BIN, seed_alpha);
        c.kinds = kinds.clone();
        c.deep = n <= 10;
        run_seeds::<H>(&mut out, &format!("E2 F_bin({n}) depth 1"), &c, f_bin(n), 1, &no_probes);
        if !out.violations.is_empty() {
            return out;
        }
    }
    let seg_sizes: Vec<usize> = if q { vec![15, 16, 17] } else { vec![17, 18, 19, 20, 31, 32, 33] };
    for n in seg_sizes {
        let mut c = seeds_cfg(prop, n, &REL_TERN, seed_alpha);
        c.kinds = kinds.clone();
        run_seeds::<H>(&mut out, &format!("E2 F_seg({n}) depth 1"), &c, f_seg(n), 1, &no_probes);
        if !out.violations.is_empty() {
            return out;
        }
    }
    let perm_sizes: Vec<usize> = if q { vec![4, 5, 6] } else { vec![5, 6, 7, 8] };
    for n in perm_sizes {
        let mut c = seeds_cfg(prop, n, &rel_perm(n), seed_alpha);
        c.kinds = kinds.clone();
        let depth = if n <= if q { 4 } else { 6 } { 2 } else { 1 };
        run_seeds::<H>(&mut out, &format!("E2 F_perm({n}) depth {depth}"), &c, f_perm(n), depth, &no_probes);
        if !out.violations.is_empty() {
            return out;
        }
    }
    if !q {
        for n in [5, 6, 7, 8] {
            let mut c = seeds_cfg(prop, n, &REL_TERN, seed_alpha);
            c.kinds = kinds.clone();
            run_seeds::<H>(&mut out, &format!("E2 F_tern({n}) depth 1"), &c, f_tern(n), 1, &no_probes);
            if !out.violations.is_empty() {
                return out;
            }
        }
    }
    out
}

pub fn run_property(prop: &str, tier: Tier) -> Outcome {
    match prop {
        "C01" => run_history_property::<FnvBuild>("C01", tier),
        "C02" => run_history_property::<FnvBuild>("C02", tier),
        "C03" => run_history_property::<FnvBuild>("C03", tier),
        "C04" => run_history_property::<FnvBuild>("C04", tier),
        "C11" => run_history_property::<FnvBuild>("C11", tier),
        "C12" => run_history_property::<FnvBuild>("C12", tier),
        _ => panic!("unknown property {prop}"),
    }
}

pub fn level_text(prop: &str) -> &'static str {
    let _ = prop;
    "model_checking"
}

pub fn explanation(prop: &str) -> String {
    format!("explicit-state exploration of the real crate for {prop}: every transition is executed on the implementation and compared with a reference map in lock-step; counts are per layer in `layers`")
}

pub fn assumptions(_prop: &str) -> Vec<String> {
    vec![
        "the read-only hook `verif_snapshot` reports the real tables (cross-checked against the public API: len, get, iter, peek, Debug order)".into(),
        "bounded universe: see the per-layer bounds; behaviours needing more distinct items/priorities than the bound are not covered".into(),
        "user code is well behaved (total Ord, consistent Hash/Eq) except where a fault is injected deliberately".into(),
    ]
}
