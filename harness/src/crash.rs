//! Abort capture. Each worker thread remembers the case it is executing; if the process is about
//! to die (non-unwinding panic such as std's `unsafe precondition(s) violated`, a panic while
//! panicking, SIGSEGV/SIGBUS/SIGILL/SIGABRT) the case is written to stdout as `CRASH-CASE <json>`
//! so that the driver can replay it alone in a fresh process.

use crate::explore::Case;
use crate::types::InjectedFault;
use std::cell::RefCell;
use std::io::Write;
use std::sync::atomic::{AtomicBool, Ordering};

thread_local! {
    static CUR: RefCell<Option<Case>> = const { RefCell::new(None) };
    static EXTRA: RefCell<String> = const { RefCell::new(String::new()) };
    static LAST_PANIC: RefCell<String> = const { RefCell::new(String::new()) };
}
static PRINTED: AtomicBool = AtomicBool::new(false);

#[inline]
pub fn set_case<F: FnOnce() -> Case>(f: F) {
    CUR.with(|c| {
        if let Ok(mut c) = c.try_borrow_mut() {
            *c = Some(f());
        }
    });
}

/// Free-form refinement of the current case (fault point, continuation ops...).
pub fn set_extra(s: String) {
    EXTRA.with(|e| {
        if let Ok(mut e) = e.try_borrow_mut() {
            *e = s;
        }
    });
}

pub fn last_panic() -> String {
    LAST_PANIC.with(|l| l.borrow().clone())
}

fn emit(reason: &str) {
    if PRINTED.swap(true, Ordering::SeqCst) {
        return;
    }
    let case = CUR.with(|c| c.try_borrow().ok().and_then(|c| c.clone()));
    let extra = EXTRA.with(|e| e.try_borrow().map(|e| e.clone()).unwrap_or_default());
    let mut line = String::from("CRASH-CASE ");
    match case {
        Some(mut c) => {
            c.detail = format!("process abort: {reason}{}{}", if extra.is_empty() { "" } else { " | " }, extra);
            line.push_str(&serde_json::to_string(&c).unwrap_or_default());
        }
        None => line.push_str(&format!("{{\"unknown\":true,\"reason\":{:?}}}", reason)),
    }
    line.push('\n');
    let out = std::io::stdout();
    let mut l = out.lock();
    let _ = l.write_all(line.as_bytes());
    let _ = l.flush();
}

extern "C" {
    fn signal(signum: i32, handler: usize) -> usize;
    fn _exit(code: i32) -> !;
    fn mallopt(param: i32, value: i32) -> i32;
}

/// The explorers allocate and free millions of small queues on 16 threads: keep glibc from
/// trimming and re-growing its arenas all the time (measured: 130 k mprotect calls in 90 s).
pub fn tune_allocator() {
    #[cfg(not(miri))]
    unsafe {
        mallopt(-1, 1 << 30); // M_TRIM_THRESHOLD
        mallopt(-2, 64 << 20); // M_TOP_PAD
        mallopt(-3, 1 << 30); // M_MMAP_THRESHOLD
    }
}

extern "C" fn on_signal(sig: i32) {
    let name = match sig {
        6 => "SIGABRT",
        11 => "SIGSEGV",
        7 => "SIGBUS",
        4 => "SIGILL",
        8 => "SIGFPE",
        _ => "signal",
    };
    emit(name);
    unsafe { _exit(128 + sig) }
}

pub fn install(quiet: bool) {
    std::panic::set_hook(Box::new(move |info| {
        if info.payload().downcast_ref::<InjectedFault>().is_some() {
            return; // deliberate
        }
        let msg = if let Some(s) = info.payload().downcast_ref::<&str>() {
            s.to_string()
        } else if let Some(s) = info.payload().downcast_ref::<String>() {
            s.clone()
        } else {
            "<non-string panic>".to_string()
        };
        let loc = info.location().map(|l| format!("{}:{}", l.file(), l.line())).unwrap_or_default();
        LAST_PANIC.with(|l| {
            if let Ok(mut l) = l.try_borrow_mut() {
                *l = format!("{msg} at {loc}");
            }
        });
        // Panics that cannot unwind abort the process right after this hook returns.
        let fatal = msg.contains("unsafe precondition") || msg.contains("cannot unwind") || msg.contains("panic in a function that cannot unwind") || std::thread::panicking() && msg.contains("while processing panic");
        if msg.contains("panic in a destructor during cleanup") {
            // a second panic while the first one unwinds: Rust aborts. Safe by definition (no UB).
            emit(&format!("SAFE-ABORT (a destructor panicked while another panic was unwinding; Rust aborts the process, no undefined behaviour): previous panic: {}", last_panic()));
        } else if fatal {
            emit(&format!("{msg} at {loc}"));
        } else if !quiet || std::env::var_os("PQMC_DEBUG").is_some() {
            eprintln!("[panic] {msg} at {loc}");
        }
    }));
    #[cfg(not(miri))]
    unsafe {
        for s in [6, 11, 7, 4, 8] {
            signal(s, on_signal as usize);
        }
    }
}
