//! E4 – type matrix: the closed small-scope search of E1, generic over the element types, so that the
//! same exhaustive exploration runs on instantiations the instrumented `Item`/`Prio` cannot stand for:
//! owned `String` items looked up through `&str`, zero-sized items and priorities, `Reverse`, heap-owning
//! priorities, wide integers, tuples. Code that is generic over `I`/`P` can only tell such types apart by
//! `size_of` / `needs_drop` / their trait impls, and that is exactly what this layer varies.
//!
//! State = (kind, slot order of (item index, priority index), heap, qp, size) read through the hook;
//! transitions = the public mutators over a universe of K items x M priorities (+ serde round trips,
//! clone / clone_from, conversion, capacity calls); oracle = a reference vector item -> priority index.

use crate::explore::{Case, Root};
use crate::ops::Op;
use priority_queue::{DoublePriorityQueue, PriorityQueue};
use serde::de::DeserializeOwned;
use serde::Serialize;
use std::borrow::Borrow;
use std::cmp::Reverse;
use std::collections::{HashMap, VecDeque};
use std::fmt::Debug;
use std::hash::Hash;
use std::panic::{catch_unwind, AssertUnwindSafe};

type H = crate::types::FnvBuild;

/// A finite universe of items and priorities of concrete types.
pub trait TU: 'static {
    type I: Hash + Eq + Clone + Debug + Serialize + DeserializeOwned + Borrow<Self::B>;
    type P: Ord + Clone + Debug + Serialize + DeserializeOwned;
    /// borrowed form used for lookups
    type B: Hash + Eq + ?Sized;
    const NAME: &'static str;
    const K: usize;
    const M: usize;
    fn item(i: usize) -> Self::I;
    /// distinct values; their relative order is whatever `Ord` says
    fn prio(j: usize) -> Self::P;
    fn borrowed(i: &Self::I) -> &Self::B {
        i.borrow()
    }
}

macro_rules! tu {
    ($name:ident, $label:expr, $i:ty, $p:ty, $b:ty, $k:expr, $m:expr, $item:expr, $prio:expr) => {
        pub struct $name;
        impl TU for $name {
            type I = $i;
            type P = $p;
            type B = $b;
            const NAME: &'static str = $label;
            const K: usize = $k;
            const M: usize = $m;
            fn item(i: usize) -> $i {
                let f: fn(usize) -> $i = $item;
                f(i)
            }
            fn prio(j: usize) -> $p {
                let f: fn(usize) -> $p = $prio;
                f(j)
            }
        }
    };
}

tu!(TStrI32, "String items looked up through &str, i32 priorities", String, i32, str, 3, 3, |i| format!("item-{i}"), |j| j as i32 - 1);
tu!(TUnitUnit, "zero-sized item and priority: ((), ())", (), (), (), 1, 1, |_| (), |_| ());
tu!(TU8Unit, "u8 items, zero-sized priority ()", u8, (), u8, 3, 1, |i| i as u8, |_| ());
tu!(TUnitU8, "zero-sized item (), u8 priorities", (), u8, (), 1, 3, |_| (), |j| j as u8);
tu!(TU32Rev, "u32 items, Reverse<i32> priorities", u32, Reverse<i32>, u32, 3, 3, |i| i as u32, |j| Reverse(j as i32));
tu!(TVecString, "Vec<u8> items, String priorities (both own heap memory)", Vec<u8>, String, [u8], 3, 3, |i| vec![i as u8; i + 1], |j| format!("p{j}"));
tu!(TU64Tuple, "u64 items, (i32, String) priorities", u64, (i32, String), u64, 3, 3, |i| 1u64 << (20 * i), |j| ((j / 2) as i32, format!("{}", j % 2)));
tu!(TWide, "u128 items, i128 priorities", u128, i128, u128, 3, 3, |i| u128::MAX - i as u128, |j| [i128::MIN, 0, i128::MAX][j]);
tu!(TStaticStr, "&'static str items are not deserialisable: Box<str> items, bool priorities", Box<str>, bool, str, 3, 2, |i| ["a", "bb", "ccc"][i].into(), |j| j == 1);
tu!(TArr, "[u8; 24] items, Option<u16> priorities", [u8; 24], Option<u16>, [u8; 24], 3, 3, |i| [i as u8; 24], |j| [None, Some(0), Some(7)][j]);

/// operations (all arguments are indices into the universe)
#[derive(Clone, Copy, Debug, PartialEq, Eq)]
pub enum TOp {
    Push(usize, usize),
    PushInc(usize, usize),
    PushDec(usize, usize),
    Change(usize, usize),
    ChangeBy(usize, usize),
    Remove(usize),
    PopHi,
    PopLo,
    PopIf(bool, bool),
    Clear,
    Drain(usize, bool),
    RetainDrop(usize),
    RetainNone,
    IterMutAll(usize),
    IterMutFirst(usize),
    Extend2(usize, usize, usize, bool),
    Append1(usize, usize),
    CloneSwap,
    CloneFrom(usize),
    Convert,
    Serde(usize),
    Reserve,
    Shrink,
    FromVecAll(usize),
}

impl TOp {
    pub fn encode(&self) -> u64 {
        let (c, a, b, d) = match *self {
            TOp::Push(i, j) => (1, i, j, 0),
            TOp::PushInc(i, j) => (2, i, j, 0),
            TOp::PushDec(i, j) => (3, i, j, 0),
            TOp::Change(i, j) => (4, i, j, 0),
            TOp::ChangeBy(i, j) => (5, i, j, 0),
            TOp::Remove(i) => (6, i, 0, 0),
            TOp::PopHi => (7, 0, 0, 0),
            TOp::PopLo => (8, 0, 0, 0),
            TOp::PopIf(hi, r) => (9, hi as usize, r as usize, 0),
            TOp::Clear => (10, 0, 0, 0),
            TOp::Drain(n, f) => (11, n, f as usize, 0),
            TOp::RetainDrop(i) => (12, i, 0, 0),
            TOp::RetainNone => (13, 0, 0, 0),
            TOp::IterMutAll(j) => (14, j, 0, 0),
            TOp::IterMutFirst(j) => (15, j, 0, 0),
            TOp::Extend2(i, j, j2, h) => (16, i, j, j2 * 2 + h as usize),
            TOp::Append1(i, j) => (17, i, j, 0),
            TOp::CloneSwap => (18, 0, 0, 0),
            TOp::CloneFrom(n) => (19, n, 0, 0),
            TOp::Convert => (20, 0, 0, 0),
            TOp::Serde(ch) => (21, ch, 0, 0),
            TOp::Reserve => (22, 0, 0, 0),
            TOp::Shrink => (23, 0, 0, 0),
            TOp::FromVecAll(j) => (24, j, 0, 0),
        };
        (c as u64) * 1_000_000 + (a as u64) * 10_000 + (b as u64) * 100 + d as u64
    }
    pub fn decode(x: u64) -> TOp {
        let (c, a, b, d) = ((x / 1_000_000) as usize, ((x / 10_000) % 100) as usize, ((x / 100) % 100) as usize, (x % 100) as usize);
        match c {
            1 => TOp::Push(a, b),
            2 => TOp::PushInc(a, b),
            3 => TOp::PushDec(a, b),
            4 => TOp::Change(a, b),
            5 => TOp::ChangeBy(a, b),
            6 => TOp::Remove(a),
            7 => TOp::PopHi,
            8 => TOp::PopLo,
            9 => TOp::PopIf(a == 1, b == 1),
            10 => TOp::Clear,
            11 => TOp::Drain(a, b == 1),
            12 => TOp::RetainDrop(a),
            13 => TOp::RetainNone,
            14 => TOp::IterMutAll(a),
            15 => TOp::IterMutFirst(a),
            16 => TOp::Extend2(a, b, d / 2, d % 2 == 1),
            17 => TOp::Append1(a, b),
            18 => TOp::CloneSwap,
            19 => TOp::CloneFrom(a),
            20 => TOp::Convert,
            21 => TOp::Serde(a),
            22 => TOp::Reserve,
            23 => TOp::Shrink,
            _ => TOp::FromVecAll(a),
        }
    }
}

/// Both queue kinds behind one small generic interface.
pub enum GQ<T: TU> {
    P(PriorityQueue<T::I, T::P, H>),
    D(DoublePriorityQueue<T::I, T::P, H>),
}

macro_rules! both {
    ($s:expr, $q:ident => $body:expr) => {
        match $s {
            GQ::P($q) => $body,
            GQ::D($q) => $body,
        }
    };
}

type Model = Vec<Option<usize>>;

#[derive(Clone, PartialEq, Eq, Hash, Debug)]
pub struct TKey {
    double: bool,
    slots: Vec<(usize, usize)>,
    heap: Vec<usize>,
}

impl<T: TU> Clone for GQ<T> {
    fn clone(&self) -> Self {
        match self {
            GQ::P(q) => GQ::P(q.clone()),
            GQ::D(q) => GQ::D(q.clone()),
        }
    }
}

fn item_ix<T: TU>(i: &T::I) -> Result<usize, String> {
    (0..T::K).find(|&k| T::item(k) == *i).ok_or_else(|| format!("the queue holds an item that was never inserted: {i:?}"))
}
fn prio_ix<T: TU>(p: &T::P) -> Result<usize, String> {
    (0..T::M).find(|&k| T::prio(k) == *p).ok_or_else(|| format!("the queue holds a priority that was never assigned: {p:?}"))
}

impl<T: TU> GQ<T> {
    fn new(double: bool) -> Self {
        if double {
            GQ::D(DoublePriorityQueue::with_default_hasher())
        } else {
            GQ::P(PriorityQueue::with_default_hasher())
        }
    }
    fn double(&self) -> bool {
        matches!(self, GQ::D(_))
    }
    fn len(&self) -> usize {
        both!(self, q => q.len())
    }
    fn peek_hi(&self) -> Option<(&T::I, &T::P)> {
        match self {
            GQ::P(q) => q.peek(),
            GQ::D(q) => q.peek_max(),
        }
    }
    fn peek_lo(&self) -> Option<(&T::I, &T::P)> {
        match self {
            GQ::P(_) => None,
            GQ::D(q) => q.peek_min(),
        }
    }
    fn pop_hi(&mut self) -> Option<(T::I, T::P)> {
        match self {
            GQ::P(q) => q.pop(),
            GQ::D(q) => q.pop_max(),
        }
    }
    fn pop_lo(&mut self) -> Option<(T::I, T::P)> {
        match self {
            GQ::P(_) => None,
            GQ::D(q) => q.pop_min(),
        }
    }

    /// state key + validity of the tables and of the heap order under `P: Ord`
    fn key(&self) -> Result<TKey, String> {
        let (heap, qp, size, map_len, slots): (Vec<usize>, Vec<usize>, usize, usize, Vec<(usize, usize)>) = {
            let s = both!(self, q => q.verif_snapshot());
            let mut sl = vec![];
            for (i, p) in &s.slots {
                sl.push((item_ix::<T>(i)?, prio_ix::<T>(p)?));
            }
            (s.heap, s.qp, s.size, s.map_len, sl)
        };
        let n = size;
        if heap.len() != n || qp.len() != n || map_len != n {
            return Err(format!("I1: size = {n}, heap.len = {}, qp.len = {}, map entries = {map_len}", heap.len(), qp.len()));
        }
        for (pos, &slot) in heap.iter().enumerate() {
            if slot >= n || qp[slot] != pos {
                return Err(format!("I1: heap and qp are not inverse permutations: heap = {heap:?}, qp = {qp:?}"));
            }
        }
        for a in 0..n {
            for b in (a + 1)..n {
                if slots[a].0 == slots[b].0 {
                    return Err(format!("the same item is stored twice: {slots:?}"));
                }
            }
        }
        let pr = |pos: usize| T::prio(slots[heap[pos]].1);
        let level = |i: usize| (usize::BITS - (i + 1).leading_zeros() - 1) as usize;
        for i in 1..n {
            let parent = (i - 1) / 2;
            if self.double() {
                let mut anc = i;
                while anc > 0 {
                    anc = (anc - 1) / 2;
                    let ok = if level(anc) % 2 == 0 { pr(anc) <= pr(i) } else { pr(anc) >= pr(i) };
                    if !ok {
                        return Err(format!("I3: min-max heap order broken between positions {anc} and {i}: {:?}", (0..n).map(pr).collect::<Vec<_>>()));
                    }
                }
            } else if pr(parent) < pr(i) {
                return Err(format!("I2: max-heap order broken at position {i}: {:?}", (0..n).map(pr).collect::<Vec<_>>()));
            }
        }
        Ok(TKey { double: self.double(), slots, heap })
    }

    /// every observer against the model
    fn check(&self, m: &Model) -> Result<TKey, String> {
        let k = self.key()?;
        let n = m.iter().filter(|x| x.is_some()).count();
        if self.len() != n || both!(self, q => q.is_empty()) != (n == 0) {
            return Err(format!("len() = {} but {n} items are stored", self.len()));
        }
        for i in 0..T::K {
            let it = T::item(i);
            let want = m[i].map(T::prio);
            let got: Option<T::P> = both!(self, q => q.get_priority::<T::I>(&it).cloned());
            let got_b: Option<T::P> = both!(self, q => q.get_priority(T::borrowed(&it)).cloned());
            let got_g: Option<(T::I, T::P)> = both!(self, q => q.get(T::borrowed(&it)).map(|(a, b)| (a.clone(), b.clone())));
            if got != want || got_b != want || got_g.as_ref().map(|x| &x.1) != want.as_ref() || got_g.as_ref().map_or(false, |x| x.0 != it) {
                return Err(format!("item {it:?}: get_priority = {got:?}, through the borrowed form {got_b:?}, get = {got_g:?}; the reference holds {want:?}"));
            }
        }
        let mut seen: Vec<(usize, usize)> = vec![];
        for (i, p) in both!(self, q => q.iter().map(|(a, b)| (a.clone(), b.clone())).collect::<Vec<_>>()) {
            seen.push((item_ix::<T>(&i)?, prio_ix::<T>(&p)?));
        }
        seen.sort();
        let mut want: Vec<(usize, usize)> = m.iter().enumerate().filter_map(|(i, p)| p.map(|p| (i, p))).collect();
        want.sort();
        if seen != want {
            return Err(format!("iter() yields {seen:?} (item, priority indices), the reference holds {want:?}"));
        }
        let max = m.iter().flatten().map(|&j| T::prio(j)).max();
        let min = m.iter().flatten().map(|&j| T::prio(j)).min();
        if self.peek_hi().map(|x| x.1.clone()) != max {
            return Err(format!("peek (high end) = {:?}, the maximum stored priority is {max:?}", self.peek_hi()));
        }
        if self.double() && self.peek_lo().map(|x| x.1.clone()) != min {
            return Err(format!("peek_min = {:?}, the minimum stored priority is {min:?}", self.peek_lo()));
        }
        Ok(k)
    }

    /// full drains of clones from each end: monotone, every element once
    fn check_deep(&self, m: &Model) -> Result<(), String> {
        let n = m.iter().filter(|x| x.is_some()).count();
        for hi in [true, false] {
            if !hi && !self.double() {
                continue;
            }
            let mut c = self.clone();
            let mut last: Option<T::P> = None;
            let mut got = 0;
            while let Some((i, p)) = if hi { c.pop_hi() } else { c.pop_lo() } {
                got += 1;
                if got > n {
                    return Err("draining by pop yields more elements than are stored".into());
                }
                let ix = item_ix::<T>(&i)?;
                if m[ix].map(T::prio).as_ref() != Some(&p) {
                    return Err(format!("pop yielded ({i:?}, {p:?}), the reference holds {:?}", m[ix]));
                }
                if let Some(l) = &last {
                    if (hi && p > *l) || (!hi && p < *l) {
                        return Err(format!("pops from the {} end are not monotone: {l:?} then {p:?}", if hi { "high" } else { "low" }));
                    }
                }
                last = Some(p);
            }
            if got != n {
                return Err(format!("draining by pop yields {got} of {n} elements"));
            }
        }
        self.iterator_contracts(m)?;
        let v: Vec<(T::I, T::P)> = match self.clone() {
            GQ::P(q) => q.into_sorted_iter().collect(),
            GQ::D(q) => q.into_sorted_iter().rev().collect(),
        };
        if v.len() != n || v.windows(2).any(|w| w[0].1 < w[1].1) {
            return Err(format!("sorted consumption is not every element once in non-increasing order: {v:?}"));
        }
        Ok(())
    }

    /// Every program over {next, next_back} of length n + 2 on every iterator the two kinds offer, with
    /// len() / size_hint() read before every call: each stored element exactly once, never from both
    /// ends, the declared length exact, None for ever after exhaustion.
    fn iterator_contracts(&self, m: &Model) -> Result<(), String> {
        let n = m.iter().filter(|x| x.is_some()).count();
        fn de<X, It: DoubleEndedIterator<Item = X> + ExactSizeIterator>(what: &str, mk: &mut dyn FnMut() -> It, key: &dyn Fn(&X) -> Result<usize, String>, n: usize) -> Result<(), String> {
            let len = n + 2;
            for prog in 0u32..(1 << len) {
                let mut it = mk();
                let mut seen: Vec<usize> = vec![];
                for step in 0..len {
                    let left = n - seen.len();
                    let (lo, hi) = it.size_hint();
                    if it.len() != left || lo != left || hi != Some(left) {
                        return Err(format!("{what}: len() = {}, size_hint() = ({lo}, {hi:?}) with {left} elements left (program {prog:#b}, step {step})", it.len()));
                    }
                    let x = if prog >> step & 1 == 1 { it.next_back() } else { it.next() };
                    match x {
                        None => {
                            if left != 0 {
                                return Err(format!("{what}: None with {left} elements left (program {prog:#b}, step {step})"));
                            }
                        }
                        Some(x) => {
                            let k = key(&x)?;
                            if left == 0 || seen.contains(&k) {
                                return Err(format!("{what}: element {k} yielded twice or after exhaustion (program {prog:#b}, step {step})"));
                            }
                            seen.push(k);
                        }
                    }
                }
            }
            Ok(())
        }
        fn fw<X, It: Iterator<Item = X>>(what: &str, mk: &mut dyn FnMut() -> It, key: &dyn Fn(&X) -> Result<usize, String>, n: usize) -> Result<(), String> {
            let mut it = mk();
            let mut seen: Vec<usize> = vec![];
            for step in 0..(n + 3) {
                let left = n - seen.len();
                let (lo, hi) = it.size_hint();
                if lo > left || hi.map_or(false, |h| h < left) {
                    return Err(format!("{what}: size_hint() = ({lo}, {hi:?}) with {left} elements left (step {step})"));
                }
                match it.next() {
                    None => {
                        if left != 0 {
                            return Err(format!("{what}: None with {left} elements left"));
                        }
                    }
                    Some(x) => {
                        let k = key(&x)?;
                        if left == 0 || seen.contains(&k) {
                            return Err(format!("{what}: element {k} yielded twice or after exhaustion"));
                        }
                        seen.push(k);
                    }
                }
            }
            Ok(())
        }
        let kr = |x: &(&T::I, &T::P)| item_ix::<T>(x.0);
        let km = |x: &(&mut T::I, &mut T::P)| item_ix::<T>(x.0);
        let ko = |x: &(T::I, T::P)| item_ix::<T>(&x.0);
        match self {
            GQ::P(q) => {
                de("iter()", &mut || q.iter(), &kr, n)?;
                de("(&queue).into_iter()", &mut || (&*q).into_iter(), &kr, n)?;
                de("into_iter()", &mut || q.clone().into_iter(), &ko, n)?;
                let mut c = q.clone();
                fw("iter_mut()", &mut || unsafe { &mut *(&mut c as *mut PriorityQueue<T::I, T::P, H>) }.iter_mut(), &km, n)?;
                fw("into_sorted_iter()", &mut || q.clone().into_sorted_iter(), &ko, n)?;
            }
            GQ::D(q) => {
                de("iter()", &mut || q.iter(), &kr, n)?;
                de("(&queue).into_iter()", &mut || (&*q).into_iter(), &kr, n)?;
                de("into_iter()", &mut || q.clone().into_iter(), &ko, n)?;
                de("into_sorted_iter()", &mut || q.clone().into_sorted_iter(), &ko, n)?;
                let mut c = q.clone();
                de("iter_mut()", &mut || unsafe { &mut *(&mut c as *mut DoublePriorityQueue<T::I, T::P, H>) }.iter_mut(), &km, n)?;
            }
        }
        // drain needs a fresh clone per program: one full program from each end and one alternating
        for pattern in 0..3 {
            let mut c = self.clone();
            let mut got = 0;
            macro_rules! go {
                ($q:expr) => {{
                    let mut d = $q.drain();
                    for step in 0..(n + 2) {
                        if d.len() != n - got {
                            return Err(format!("drain(): len() = {} with {} elements left", d.len(), n - got));
                        }
                        let x = match pattern {
                            0 => d.next(),
                            1 => d.next_back(),
                            _ => {
                                if step % 2 == 0 {
                                    d.next()
                                } else {
                                    d.next_back()
                                }
                            }
                        };
                        got += x.is_some() as usize;
                    }
                }};
            }
            match &mut c {
                GQ::P(q) => go!(q),
                GQ::D(q) => go!(q),
            }
            if got != n || c.len() != 0 {
                return Err(format!("drain() yielded {got} of {n} elements, the queue then holds {}", c.len()));
            }
        }
        Ok(())
    }

    fn apply(&mut self, op: TOp, m: &mut Model) -> Result<(), String> {
        let it = |i: usize| T::item(i);
        let pr = |j: usize| T::prio(j);
        match op {
            TOp::Push(i, j) => {
                let r = both!(self, q => q.push(it(i), pr(j)));
                if r != m[i].map(pr) {
                    return Err(format!("push returned {r:?}, the previous priority was {:?}", m[i].map(pr)));
                }
                m[i] = Some(j);
            }
            TOp::PushInc(i, j) | TOp::PushDec(i, j) => {
                let inc = matches!(op, TOp::PushInc(..));
                let r = match (self, inc) {
                    (GQ::P(q), true) => q.push_increase(it(i), pr(j)),
                    (GQ::P(q), false) => q.push_decrease(it(i), pr(j)),
                    (GQ::D(q), true) => q.push_increase(it(i), pr(j)),
                    (GQ::D(q), false) => q.push_decrease(it(i), pr(j)),
                };
                let want = match m[i] {
                    None => {
                        m[i] = Some(j);
                        None
                    }
                    Some(old) => {
                        let moves = if inc { pr(j) > pr(old) } else { pr(j) < pr(old) };
                        if moves {
                            m[i] = Some(j);
                            Some(pr(old))
                        } else {
                            Some(pr(j))
                        }
                    }
                };
                if r != want {
                    return Err(format!("push_{} returned {r:?}, expected {want:?}", if inc { "increase" } else { "decrease" }));
                }
            }
            TOp::Change(i, j) => {
                let item = it(i);
                let r = both!(self, q => q.change_priority(T::borrowed(&item), pr(j)));
                if r != m[i].map(pr) {
                    return Err(format!("change_priority returned {r:?}, the old priority was {:?}", m[i].map(pr)));
                }
                if m[i].is_some() {
                    m[i] = Some(j);
                }
            }
            TOp::ChangeBy(i, j) => {
                let item = it(i);
                let r = both!(self, q => q.change_priority_by(T::borrowed(&item), |p| *p = pr(j)));
                if r != m[i].is_some() {
                    return Err(format!("change_priority_by returned {r}"));
                }
                if m[i].is_some() {
                    m[i] = Some(j);
                }
            }
            TOp::Remove(i) => {
                let item = it(i);
                let r = both!(self, q => q.remove(T::borrowed(&item)));
                let want = m[i].map(|j| (it(i), pr(j)));
                if r != want {
                    return Err(format!("remove returned {r:?}, expected {want:?}"));
                }
                m[i] = None;
            }
            TOp::PopHi | TOp::PopLo => {
                let hi = op == TOp::PopHi;
                if !hi && !self.double() {
                    return Ok(());
                }
                let peeked = if hi { self.peek_hi() } else { self.peek_lo() }.map(|(a, b)| (a.clone(), b.clone()));
                let r = if hi { self.pop_hi() } else { self.pop_lo() };
                if r != peeked {
                    return Err(format!("pop returned {r:?}, the preceding peek reported {peeked:?}"));
                }
                if let Some((i, _)) = r {
                    m[item_ix::<T>(&i)?] = None;
                }
            }
            TOp::PopIf(hi, ret) => {
                if !hi && !self.double() {
                    return Ok(());
                }
                let peeked = if hi { self.peek_hi() } else { self.peek_lo() }.map(|(a, b)| (a.clone(), b.clone()));
                let mut shown = None;
                let mut f = |a: &mut T::I, b: &mut T::P| {
                    shown = Some((a.clone(), b.clone()));
                    ret
                };
                let r = match self {
                    GQ::P(q) => q.pop_if(&mut f),
                    GQ::D(q) if hi => q.pop_max_if(&mut f),
                    GQ::D(q) => q.pop_min_if(&mut f),
                };
                if shown != peeked {
                    return Err(format!("pop_if showed its predicate {shown:?}, peek reported {peeked:?}"));
                }
                let want = if ret { peeked } else { None };
                if r != want {
                    return Err(format!("pop_if returned {r:?}, expected {want:?}"));
                }
                if let Some((i, _)) = r {
                    m[item_ix::<T>(&i)?] = None;
                }
            }
            TOp::Clear => {
                both!(self, q => q.clear());
                m.iter_mut().for_each(|x| *x = None);
            }
            TOp::Drain(k, forget) => {
                let n = m.iter().filter(|x| x.is_some()).count();
                let mut got: Vec<(T::I, T::P)> = vec![];
                {
                    macro_rules! go {
                        ($q:expr) => {{
                            let mut d = $q.drain();
                            for _ in 0..k {
                                if let Some(x) = d.next() {
                                    got.push(x);
                                }
                            }
                            if forget {
                                std::mem::forget(d);
                            }
                        }};
                    }
                    match self {
                        GQ::P(q) => go!(q),
                        GQ::D(q) => go!(q),
                    }
                }
                if got.len() != k.min(n) {
                    return Err(format!("drain yielded {} elements for {k} calls on {n} stored", got.len()));
                }
                for (i, p) in &got {
                    let ix = item_ix::<T>(i)?;
                    if m[ix].map(pr).as_ref() != Some(p) {
                        return Err(format!("drain yielded ({i:?}, {p:?}), the reference holds {:?}", m[ix]));
                    }
                }
                m.iter_mut().for_each(|x| *x = None);
            }
            TOp::RetainDrop(i) => {
                let item = it(i);
                let mut calls = 0;
                both!(self, q => q.retain(|a, _| { calls += 1; *a != item }));
                let n = m.iter().filter(|x| x.is_some()).count();
                if calls != n {
                    return Err(format!("retain called its predicate {calls} times on {n} elements"));
                }
                m[i] = None;
            }
            TOp::RetainNone => {
                both!(self, q => q.retain_mut(|_, _| false));
                m.iter_mut().for_each(|x| *x = None);
            }
            TOp::IterMutAll(j) => {
                let mut visited = 0;
                match self {
                    GQ::P(q) => q.iter_mut().for_each(|(_, p)| { visited += 1; *p = pr(j) }),
                    GQ::D(q) => q.iter_mut().rev().for_each(|(_, p)| { visited += 1; *p = pr(j) }),
                }
                let n = m.iter().filter(|x| x.is_some()).count();
                if visited != n {
                    return Err(format!("iter_mut visited {visited} of {n} elements"));
                }
                m.iter_mut().for_each(|x| {
                    if x.is_some() {
                        *x = Some(j)
                    }
                });
            }
            TOp::IterMutFirst(j) => {
                let first = match self {
                    GQ::P(q) => {
                        let mut itr = q.iter_mut();
                        let f = itr.next().map(|(a, p)| { *p = pr(j); a.clone() });
                        drop(itr);
                        f
                    }
                    GQ::D(q) => {
                        let mut itr = q.iter_mut();
                        let f = itr.next_back().map(|(a, p)| { *p = pr(j); a.clone() });
                        drop(itr);
                        f
                    }
                };
                if let Some(a) = first {
                    let ix = item_ix::<T>(&a)?;
                    if m[ix].is_none() {
                        return Err(format!("iter_mut yielded {a:?}, which is not stored"));
                    }
                    m[ix] = Some(j);
                } else if m.iter().any(|x| x.is_some()) {
                    return Err("iter_mut yielded nothing on a non-empty queue".into());
                }
            }
            TOp::Extend2(i, j, j2, hint) => {
                let batch = vec![(it(i), pr(j)), (it((i + 1) % T::K), pr(j2)), (it(i), pr(j2))];
                if hint {
                    let h = crate::types::Hinted::new(batch, 0, Some(1000));
                    both!(self, q => q.extend(h));
                } else {
                    both!(self, q => q.extend(batch));
                }
                m[(i + 1) % T::K] = Some(j2);
                m[i] = Some(j2);
            }
            TOp::Append1(i, j) => {
                let mut o = GQ::<T>::new(self.double());
                match &mut o {
                    GQ::P(q) => {
                        q.push(it(i), pr(j));
                    }
                    GQ::D(q) => {
                        q.push(it(i), pr(j));
                    }
                }
                let n = m.iter().filter(|x| x.is_some()).count();
                match (&mut *self, &mut o) {
                    (GQ::P(a), GQ::P(b)) => a.append(b),
                    (GQ::D(a), GQ::D(b)) => a.append(b),
                    _ => unreachable!(),
                }
                if o.len() != 0 {
                    return Err("append left the other queue non-empty".into());
                }
                match m[i] {
                    None => m[i] = Some(j),
                    Some(_) if n == 0 => m[i] = Some(j),
                    Some(_) => {} // the other queue was not longer: the receiver's priority stays
                }
            }
            TOp::CloneSwap => {
                let c = self.clone();
                let eq = match (&*self, &c) {
                    (GQ::P(a), GQ::P(b)) => a == b && !(a != b),
                    (GQ::D(a), GQ::D(b)) => a == b && !(a != b),
                    _ => false,
                };
                if !eq {
                    return Err("a clone does not compare equal to its source".into());
                }
                *self = c;
            }
            TOp::CloneFrom(n) => {
                let mut src = GQ::<T>::new(self.double());
                let mut sm: Model = vec![None; T::K];
                for i in 0..n.min(T::K) {
                    let j = (T::M - 1).min(i);
                    match &mut src {
                        GQ::P(q) => {
                            q.push(it(T::K - 1 - i), pr(j));
                        }
                        GQ::D(q) => {
                            q.push(it(T::K - 1 - i), pr(j));
                        }
                    }
                    sm[T::K - 1 - i] = Some(j);
                }
                let want = src.key()?;
                match (&mut *self, &src) {
                    (GQ::P(a), GQ::P(b)) => a.clone_from(b),
                    (GQ::D(a), GQ::D(b)) => a.clone_from(b),
                    _ => unreachable!(),
                }
                if self.key()? != want {
                    return Err(format!("clone_from gives {:?}, the source is {want:?}", self.key()));
                }
                *m = sm;
            }
            TOp::Convert => {
                let taken = std::mem::replace(self, GQ::new(false));
                *self = match taken {
                    GQ::P(q) => GQ::D(q.into()),
                    GQ::D(q) => GQ::P(q.into()),
                };
            }
            TOp::Serde(ch) => {
                // 0: JSON text into the same kind, 1: serde_json::Value (announces a length) into the
                // same kind, 2: JSON text into the other kind and back
                fn text<A: Serialize, B: DeserializeOwned>(a: &A, what: &str) -> Result<Option<B>, String> {
                    match serde_json::to_string(a) {
                        // a value the format cannot represent: the channel does not apply
                        Err(_) => Ok(None),
                        Ok(s) => serde_json::from_str(&s).map(Some).map_err(|e| format!("deserialising {what} from JSON text failed: {e} (text: {s})")),
                    }
                }
                fn value<A: Serialize, B: DeserializeOwned>(a: &A, what: &str) -> Result<Option<B>, String> {
                    match serde_json::to_value(a) {
                        Err(_) => Ok(None),
                        Ok(v) => serde_json::from_value(v.clone()).map(Some).map_err(|e| format!("deserialising {what} from a serde_json::Value (announces its length) failed: {e} (value: {v})")),
                    }
                }
                // 0: JSON text into the same kind, 1: serde_json::Value into the same kind,
                // 2: JSON text into the other kind, then a Value back
                let back: Option<GQ<T>> = match (&*self, ch) {
                    (GQ::P(q), 0) => text::<_, PriorityQueue<T::I, T::P, H>>(q, "a serialised queue")?.map(GQ::P),
                    (GQ::D(q), 0) => text::<_, DoublePriorityQueue<T::I, T::P, H>>(q, "a serialised queue")?.map(GQ::D),
                    (GQ::P(q), 1) => value::<_, PriorityQueue<T::I, T::P, H>>(q, "a serialised queue")?.map(GQ::P),
                    (GQ::D(q), 1) => value::<_, DoublePriorityQueue<T::I, T::P, H>>(q, "a serialised queue")?.map(GQ::D),
                    (GQ::P(q), _) => match text::<_, DoublePriorityQueue<T::I, T::P, H>>(q, "a serialised PriorityQueue as a DoublePriorityQueue")? {
                        None => None,
                        Some(d) => value::<_, PriorityQueue<T::I, T::P, H>>(&d, "it back")?.or(text::<_, PriorityQueue<T::I, T::P, H>>(&d, "it back")?).map(GQ::P),
                    },
                    (GQ::D(q), _) => match text::<_, PriorityQueue<T::I, T::P, H>>(q, "a serialised DoublePriorityQueue as a PriorityQueue")? {
                        None => None,
                        Some(d) => value::<_, DoublePriorityQueue<T::I, T::P, H>>(&d, "it back")?.or(text::<_, DoublePriorityQueue<T::I, T::P, H>>(&d, "it back")?).map(GQ::D),
                    },
                };
                let Some(back) = back else { return Ok(()) };
                let eq = match (&*self, &back) {
                    (GQ::P(a), GQ::P(b)) => a == b && b == a,
                    (GQ::D(a), GQ::D(b)) => a == b && b == a,
                    _ => false,
                };
                if !eq {
                    return Err("a deserialised queue does not compare equal to the one that was serialised".into());
                }
                *self = back;
            }
            TOp::Reserve => {
                both!(self, q => { q.reserve(10); q.try_reserve(3).map_err(|e| format!("try_reserve(3) failed: {e}"))?; });
                let cap = both!(self, q => q.capacity());
                if cap < self.len() + 3 {
                    return Err(format!("capacity() = {cap} after reserve(10) on {} elements", self.len()));
                }
            }
            TOp::Shrink => {
                both!(self, q => q.shrink_to_fit());
            }
            TOp::FromVecAll(j) => {
                // From<Vec> with every item twice: the first priority given stays
                let mut v: Vec<(T::I, T::P)> = (0..T::K).map(|i| (it(i), pr((i + j) % T::M))).collect();
                v.extend((0..T::K).map(|i| (it(i), pr(j))));
                *self = if self.double() { GQ::D(v.into()) } else { GQ::P(v.into()) };
                for i in 0..T::K {
                    m[i] = Some((i + j) % T::M);
                }
            }
        }
        Ok(())
    }
}

pub fn gen_ops<T: TU>() -> Vec<TOp> {
    let mut ops = vec![TOp::PopHi, TOp::PopLo, TOp::Clear, TOp::RetainNone, TOp::CloneSwap, TOp::Convert, TOp::Reserve, TOp::Shrink];
    for i in 0..T::K {
        for j in 0..T::M {
            ops.extend([TOp::Push(i, j), TOp::PushInc(i, j), TOp::PushDec(i, j), TOp::Change(i, j), TOp::ChangeBy(i, j), TOp::Append1(i, j)]);
            for j2 in 0..T::M {
                ops.push(TOp::Extend2(i, j, j2, false));
                ops.push(TOp::Extend2(i, j, j2, true));
            }
        }
        ops.push(TOp::Remove(i));
        ops.push(TOp::RetainDrop(i));
    }
    for j in 0..T::M {
        ops.extend([TOp::IterMutAll(j), TOp::IterMutFirst(j), TOp::FromVecAll(j)]);
    }
    for hi in [true, false] {
        for r in [true, false] {
            ops.push(TOp::PopIf(hi, r));
        }
    }
    for k in 0..=(T::K + 1) {
        ops.push(TOp::Drain(k, false));
        ops.push(TOp::Drain(k, true));
        ops.push(TOp::CloneFrom(k));
    }
    for ch in 0..3 {
        ops.push(TOp::Serde(ch));
    }
    ops
}

pub struct TypedOut {
    pub states: u64,
    pub transitions: u64,
    pub violation: Option<(bool, Vec<TOp>, String)>,
}

fn run_path<T: TU>(double: bool, path: &[TOp]) -> Result<(GQ<T>, Model), String> {
    let mut q = GQ::<T>::new(double);
    let mut m: Model = vec![None; T::K];
    for (n, op) in path.iter().enumerate() {
        let r = catch_unwind(AssertUnwindSafe(|| q.apply(*op, &mut m)));
        match r {
            Ok(Ok(())) => {}
            Ok(Err(e)) => return Err(format!("step {n} {op:?}: {e}")),
            Err(e) => return Err(format!("step {n} {op:?} panicked: {}", crate::ops::panic_text(&e))),
        }
        let r = catch_unwind(AssertUnwindSafe(|| q.check(&m).and_then(|_| q.check_deep(&m))));
        match r {
            Ok(Ok(())) => {}
            Ok(Err(e)) => return Err(format!("after step {n} {op:?}: {e}")),
            Err(e) => return Err(format!("observing the queue after step {n} {op:?} panicked: {}", crate::ops::panic_text(&e))),
        }
    }
    Ok((q, m))
}

/// Closed BFS to the fixpoint for one instantiation (both kinds are connected through Convert).
pub fn explore<T: TU>(prop: &str) -> TypedOut {
    let ops = gen_ops::<T>();
    let mut out = TypedOut { states: 0, transitions: 0, violation: None };
    let mut seen: HashMap<TKey, ()> = HashMap::new();
    let mut queue: VecDeque<(GQ<T>, Model, Vec<TOp>, bool)> = VecDeque::new();
    for d in [false, true] {
        let q = GQ::<T>::new(d);
        let m: Model = vec![None; T::K];
        match q.check(&m) {
            Ok(k) => {
                if seen.insert(k, ()).is_none() {
                    out.states += 1;
                    queue.push_back((q, m, vec![], d));
                }
            }
            Err(e) => {
                out.violation = Some((d, vec![], format!("fresh queue: {e}")));
                return out;
            }
        }
    }
    while let Some((q, m, path, root_double)) = queue.pop_front() {
        for &op in &ops {
            crate::crash::set_case(|| typed_case(prop, T::NAME, root_double, &{ let mut p = path.clone(); p.push(op); p }, String::new()));
            out.transitions += 1;
            let mut c = q.clone();
            let mut mm = m.clone();
            let r = catch_unwind(AssertUnwindSafe(|| c.apply(op, &mut mm).and_then(|_| c.check(&mm))));
            let fail = |e: String| {
                let mut p = path.clone();
                p.push(op);
                Some((root_double, p, e))
            };
            match r {
                Ok(Ok(k)) => {
                    if seen.insert(k, ()).is_none() {
                        out.states += 1;
                        let deep = catch_unwind(AssertUnwindSafe(|| c.check_deep(&mm)));
                        match deep {
                            Ok(Ok(())) => {}
                            Ok(Err(e)) => {
                                out.violation = fail(format!("after {op:?}: {e}"));
                                return out;
                            }
                            Err(e) => {
                                out.violation = fail(format!("observing the queue after {op:?} panicked: {}", crate::ops::panic_text(&e)));
                                return out;
                            }
                        }
                        let mut p = path.clone();
                        p.push(op);
                        queue.push_back((c, mm, p, root_double));
                    }
                }
                Ok(Err(e)) => {
                    out.violation = fail(format!("{op:?}: {e}"));
                    return out;
                }
                Err(e) => {
                    out.violation = fail(format!("{op:?} panicked: {}", crate::ops::panic_text(&e)));
                    return out;
                }
            }
        }
    }
    out
}

pub const TYPE_NAMES: [&str; 10] = [TStrI32::NAME, TUnitUnit::NAME, TU8Unit::NAME, TUnitU8::NAME, TU32Rev::NAME, TVecString::NAME, TU64Tuple::NAME, TWide::NAME, TStaticStr::NAME, TArr::NAME];

pub fn explore_ix(t: usize, prop: &str) -> TypedOut {
    match t {
        0 => explore::<TStrI32>(prop),
        1 => explore::<TUnitUnit>(prop),
        2 => explore::<TU8Unit>(prop),
        3 => explore::<TUnitU8>(prop),
        4 => explore::<TU32Rev>(prop),
        5 => explore::<TVecString>(prop),
        6 => explore::<TU64Tuple>(prop),
        7 => explore::<TWide>(prop),
        8 => explore::<TStaticStr>(prop),
        _ => explore::<TArr>(prop),
    }
}

pub fn replay_ix(t: usize, double: bool, path: &[TOp]) -> Result<(), String> {
    match t {
        0 => run_path::<TStrI32>(double, path).map(|_| ()),
        1 => run_path::<TUnitUnit>(double, path).map(|_| ()),
        2 => run_path::<TU8Unit>(double, path).map(|_| ()),
        3 => run_path::<TUnitU8>(double, path).map(|_| ()),
        4 => run_path::<TU32Rev>(double, path).map(|_| ()),
        5 => run_path::<TVecString>(double, path).map(|_| ()),
        6 => run_path::<TU64Tuple>(double, path).map(|_| ()),
        7 => run_path::<TWide>(double, path).map(|_| ()),
        8 => run_path::<TStaticStr>(double, path).map(|_| ()),
        _ => run_path::<TArr>(double, path).map(|_| ()),
    }
}

pub fn typed_case(prop: &str, type_name: &str, double: bool, path: &[TOp], detail: String) -> Case {
    let t = TYPE_NAMES.iter().position(|n| *n == type_name).unwrap_or(0);
    let mut params = vec![t as u64];
    params.extend(path.iter().map(|o| o.encode()));
    Case {
        prop: prop.into(),
        hasher: <H as crate::types::HB>::NAME.into(),
        double,
        root: Root::New,
        ops: Vec::<Op>::new(),
        last: None,
        probe: Some("type-matrix".into()),
        detail: if detail.is_empty() { String::new() } else { format!("[{type_name}] history {path:?}: {detail}") },
        universe: vec![],
        aux: None,
        trail: vec![],
        params,
    }
}

pub fn replay_case(c: &Case) -> Result<(), String> {
    let t = c.params.first().copied().unwrap_or(0) as usize;
    let path: Vec<TOp> = c.params[1..].iter().map(|&x| TOp::decode(x)).collect();
    replay_ix(t, c.double, &path)
}

/// The whole matrix, one instantiation per worker thread.
pub fn run_matrix(prop: &str) -> (u64, u64, Vec<Case>, serde_json::Value) {
    let results: Vec<(usize, TypedOut)> = std::thread::scope(|sc| {
        let hs: Vec<_> = (0..TYPE_NAMES.len())
            .map(|t| {
                sc.spawn(move || (t, explore_ix(t, prop)))
            })
            .collect();
        hs.into_iter().map(|h| h.join().expect("type-matrix thread")).collect()
    });
    let mut states = 0;
    let mut transitions = 0;
    let mut viol = vec![];
    let mut per = vec![];
    for (t, r) in results {
        states += r.states;
        transitions += r.transitions;
        per.push(serde_json::json!({"types": TYPE_NAMES[t], "unique_states": r.states, "transitions": r.transitions}));
        if let Some((d, path, e)) = r.violation {
            viol.push(typed_case(prop, TYPE_NAMES[t], d, &path, e));
        }
    }
    (states, transitions, viol, serde_json::json!(per))
}
