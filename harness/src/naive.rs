//! A deliberately naive second explorer, used only to cross-check that E1 does not silently lose
//! states: single-threaded BFS, no hook, no oracle, states identified by strings built from the
//! PUBLIC API only (Debug prints the heap order, iter() the slot order).

use crate::explore::*;
use crate::ops::*;
use crate::queue::*;
use crate::types::*;
use crate::with_q;
use std::collections::{HashSet, VecDeque};

fn public_key<H: HB>(q: &AnyQ<H>) -> String {
    with_q!(q, x => {
        let mut s = format!("{}|{}|", x_kind(x), x.q_debug());
        let mut it = x.q_iter();
        while let Some((i, p)) = it.nx() {
            s.push_str(&format!("{}:{}:{},", i.key, i.payload, p.v));
        }
        s
    })
}

fn x_kind<Q: QueueLike>(_: &Q) -> &'static str {
    Q::KIND
}

fn public_model<H: HB>(q: &AnyQ<H>) -> Model {
    let mut m = Model::new();
    with_q!(q, x => {
        let mut it = x.q_iter();
        while let Some((i, p)) = it.nx() {
            m.insert(i.key, (i.payload, p.v));
        }
    });
    m
}

/// Number of unique states reachable with `cfg`'s alphabet from `cfg`'s roots.
pub fn count_states<H: HB>(cfg: &Cfg) -> (u64, u64) {
    let mut seen: HashSet<String> = HashSet::new();
    let mut queue: VecDeque<AnyQ<H>> = VecDeque::new();
    let uni = cfg.universe();
    for &d in &cfg.kinds {
        for r in roots_for(cfg) {
            if let Ok(q) = make_root::<H>(d, &r, &uni) {
                if seen.insert(public_key(&q)) {
                    queue.push_back(q);
                }
            }
        }
    }
    let mut transitions = 0;
    while let Some(q) = queue.pop_front() {
        let m = public_model(&q);
        let mut ops = vec![];
        gen_ops(cfg, q.double(), &m, true, &mut ops);
        for op in &ops {
            transitions += 1;
            let mut c = q.clone();
            if let Op::Convert = op {
                c = c.convert();
            } else {
                let mut mm = m.clone();
                let mut un = false;
                let _ = with_q!(&mut c, x => step(x, op, &mut mm, &mut un));
            }
            if seen.insert(public_key(&c)) {
                queue.push_back(c);
            }
        }
    }
    (seen.len() as u64, transitions)
}
