//! pqmc — explicit-state model checker for the priority-queue crate (real code, lock-step oracle).
//!
//!   pqmc check  <ID> <quick|thorough>   driver: runs the worker in a subprocess, captures aborts,
//!                                       writes evidence, prints VIOLATION / KNOWN-FINDING lines
//!   pqmc worker <ID> <quick|thorough>   the exploration itself
//!   pqmc replay <file>                  re-executes one recorded case without the explorer

mod c15;
mod cost;
mod crash;
mod e3;
mod explore;
mod naive;
mod ops;
mod post;
mod probes;
mod props;
mod queue;
mod replay;
mod typed;
mod types;

use explore::Case;

#[global_allocator]
static GLOBAL: types::FaultAlloc = types::FaultAlloc;
use props::Tier;
use serde_json::{json, Value};
use std::io::{BufRead, BufReader, Write};
use std::process::{Command, Stdio};
use std::time::Instant;

fn seed() -> u64 {
    std::env::var("VERIF_SEED").ok().and_then(|s| s.parse::<i64>().ok()).map(|x| x as u64).unwrap_or(0)
}

fn main() {
    let args: Vec<String> = std::env::args().collect();
    types::SEED.store(seed() ^ 0x5851f42d4c957f2d, std::sync::atomic::Ordering::Relaxed);
    let code = match args.get(1).map(|s| s.as_str()) {
        Some("check") => driver(&args[2], parse_tier(args.get(3))),
        Some("worker") => worker(&args[2], parse_tier(args.get(3))),
        Some("replay") => replay::replay_file(&args[2]),
        Some("miri") => miri_stage(&args[2]),
        _ => {
            eprintln!("usage: pqmc check|worker <ID> <quick|thorough> | pqmc replay <file>");
            2
        }
    };
    std::process::exit(code);
}

/// Runs inside `cargo +nightly miri run`: reduced-bound enumeration, single thread, no subprocess.
fn miri_stage(prop: &str) -> i32 {
    crash::install(true);
    let out = props::run_property_miri(prop);
    for v in &out.violations {
        println!("MIRI-VIOLATION {}", serde_json::to_string(v).unwrap());
    }
    println!("MIRI-RESULT {}", json!({"states": out.states, "transitions": out.transitions, "layers": out.layers}));
    if out.violations.is_empty() {
        0
    } else {
        1
    }
}

/// Driver side: run the Miri stage of a property (thorough tier). Returns (ok, summary, log path).
fn run_miri_stage(prop: &str) -> (Option<bool>, Value, String) {
    let log = format!("{}/replays/{prop}-miri-stage.log", out_dir());
    let _ = std::fs::create_dir_all(format!("{}/replays", out_dir()));
    let harness = std::env::var("PQMC_HARNESS_DIR").unwrap_or_else(|_| "/verif/harness".into());
    let t0 = Instant::now();
    let r = Command::new("cargo")
        .args(["+nightly", "miri", "run", "--offline", "--quiet", "--", "miri", prop])
        .current_dir(&harness)
        .env("MIRIFLAGS", "-Zmiri-disable-stacked-borrows -Zmiri-ignore-leaks -Zmiri-disable-isolation")
        .env("CARGO_NET_OFFLINE", "true")
        .env("VERIF_THREADS", "1")
        .output();
    match r {
        Err(e) => (None, json!({"skipped": format!("cannot run cargo miri: {e}")}), log),
        Ok(o) => {
            let so = String::from_utf8_lossy(&o.stdout).to_string();
            let se = String::from_utf8_lossy(&o.stderr).to_string();
            let _ = std::fs::write(&log, format!("{so}\n---- stderr ----\n{se}"));
            let res: Value = so.lines().find_map(|l| l.strip_prefix("MIRI-RESULT ")).and_then(|j| serde_json::from_str(j).ok()).unwrap_or(json!({}));
            let ub = se.contains("Undefined Behavior") || so.contains("MIRI-VIOLATION");
            let finished = so.contains("MIRI-RESULT");
            let summary = json!({"ran": true, "finished": finished, "undefined_behaviour_reported": ub, "result": res, "wall_s": t0.elapsed().as_secs_f64(),
                "flags": "-Zmiri-disable-stacked-borrows -Zmiri-ignore-leaks -Zmiri-disable-isolation"});
            if ub {
                (Some(false), summary, log)
            } else if finished && o.status.success() {
                (Some(true), summary, log)
            } else {
                // toolchain problem, unsupported operation, ...: no verdict from this stage
                (None, summary, log)
            }
        }
    }
}

fn parse_tier(a: Option<&String>) -> Tier {
    let t = a.cloned().or_else(|| std::env::var("VERIF_TIER").ok()).unwrap_or_else(|| "quick".into());
    if t == "thorough" {
        Tier::Thorough
    } else {
        Tier::Quick
    }
}

fn worker(prop: &str, tier: Tier) -> i32 {
    crash::install(true);
    crash::tune_allocator();
    // a worker whose driver has gone (killed, timed out) must not keep 16 cores busy: watch the parent
    {
        let parent = std::os::unix::process::parent_id();
        std::thread::spawn(move || loop {
            std::thread::sleep(std::time::Duration::from_secs(2));
            if std::os::unix::process::parent_id() != parent {
                eprintln!("worker: the driver process is gone, exiting");
                std::process::exit(3);
            }
        });
    }
    let t0 = Instant::now();
    let out = match std::panic::catch_unwind(|| props::run_property(prop, tier)) {
        Ok(o) => o,
        Err(_) => {
            eprintln!("worker: harness panic: {}", crash::last_panic());
            return 3;
        }
    };
    let stdout = std::io::stdout();
    let mut l = stdout.lock();
    for v in &out.violations {
        writeln!(l, "VIOLATION-CASE {}", serde_json::to_string(v).unwrap()).unwrap();
    }
    let res = json!({
        "states": out.states, "transitions": out.transitions, "validated": out.validated,
        "samples": out.samples, "exhaustive": out.exhaustive, "layers": out.layers,
        "distinct_outcomes": out.distinct_outcomes, "extra": Value::Object(out.extra), "machinery_errors": out.machinery_errors,
        "wall_s": t0.elapsed().as_secs_f64(),
    });
    writeln!(l, "RESULT {}", res).unwrap();
    l.flush().unwrap();
    0
}

struct Known {
    open: Vec<(String, String, String)>, // property, signature substring, description
}

fn load_known() -> Known {
    let mut k = Known { open: vec![] };
    if let Ok(s) = std::fs::read_to_string("/verif/known_findings.json") {
        if let Ok(v) = serde_json::from_str::<Value>(&s) {
            if let Some(a) = v.get("open").and_then(|x| x.as_array()) {
                for e in a {
                    k.open.push((
                        e["property"].as_str().unwrap_or("").to_string(),
                        e["signature"].as_str().unwrap_or("\u{0}").to_string(),
                        e["what"].as_str().unwrap_or("").to_string(),
                    ));
                }
            }
        }
    }
    k
}

/// Where evidence/ and replays/ are written (default /verif; scratch evaluations override it).
fn out_dir() -> String {
    std::env::var("PQMC_OUT_DIR").unwrap_or_else(|_| "/verif".into())
}

fn write_replay(prop: &str, c: &Case) -> String {
    let dir = &format!("{}/replays", out_dir());
    let _ = std::fs::create_dir_all(dir);
    let body = serde_json::to_string_pretty(c).unwrap();
    let mut h: u64 = 0xcbf29ce484222325;
    for b in c.signature().bytes() {
        h = (h ^ b as u64).wrapping_mul(0x100000001b3);
    }
    let path = format!("{dir}/{prop}-{:012x}.json", h & 0xffff_ffff_ffff);
    std::fs::write(&path, body).unwrap();
    if let Some(t) = replay::plain_test(c) {
        let _ = std::fs::write(path.replace(".json", "_test.rs"), t);
    }
    path
}

/// Replays `path` in a fresh process; returns (exit code or 128+signal, last lines of output).
fn replay_in_subprocess(path: &str) -> (i32, String) {
    let exe = std::env::current_exe().unwrap();
    let out = Command::new(exe).arg("replay").arg(path).output();
    match out {
        Ok(o) => {
            use std::os::unix::process::ExitStatusExt;
            let code = o.status.code().unwrap_or_else(|| 128 + o.status.signal().unwrap_or(0));
            let text = String::from_utf8_lossy(&o.stdout).to_string();
            (code, text)
        }
        Err(e) => (2, format!("cannot spawn replay: {e}")),
    }
}

fn driver(prop: &str, tier: Tier) -> i32 {
    let t0 = Instant::now();
    let known = load_known();
    let exe = std::env::current_exe().unwrap();
    let tier_s = if tier == Tier::Thorough { "thorough" } else { "quick" };
    let mut child = match Command::new(&exe).arg("worker").arg(prop).arg(tier_s).stdout(Stdio::piped()).spawn() {
        Ok(c) => c,
        Err(e) => {
            eprintln!("cannot spawn worker: {e}");
            return 2;
        }
    };
    let rd = BufReader::new(child.stdout.take().unwrap());
    let mut cases: Vec<Case> = vec![];
    let mut crash: Option<Case> = None;
    let mut result: Option<Value> = None;
    for line in rd.lines().map_while(|l| l.ok()) {
        if let Some(j) = line.strip_prefix("VIOLATION-CASE ") {
            if let Ok(c) = serde_json::from_str::<Case>(j) {
                cases.push(c);
            }
        } else if let Some(j) = line.strip_prefix("CRASH-CASE ") {
            crash = serde_json::from_str::<Case>(j).ok();
            if crash.is_none() {
                eprintln!("worker crashed outside any case: {j}");
            }
        } else if let Some(j) = line.strip_prefix("RESULT ") {
            result = serde_json::from_str(j).ok();
        } else {
            println!("{line}");
        }
    }
    let status = child.wait().ok();
    let clean = status.map_or(false, |s| s.success());
    let mut machinery_error = false;
    if !clean {
        match crash {
            Some(c) if c.detail.contains("SAFE-ABORT") => {
                // not a verdict: a double panic aborts safely; but the search was cut short
                eprintln!("worker stopped by a safe abort (panic in a destructor while unwinding; no undefined behaviour): machinery error, no verdict\n  {}", c.detail);
                machinery_error = true;
            }
            Some(c) => cases.push(c),
            None => {
                eprintln!("worker died without reporting a case (status {status:?}): machinery error, no verdict");
                machinery_error = true;
            }
        }
    }
    // confirm every case by replaying it twice in fresh processes
    let mut violations = 0;
    let mut known_seen: Vec<String> = vec![];
    let mut reported: Vec<Value> = vec![];
    for c in &cases {
        let path = write_replay(prop, c);
        let (c1, o1) = replay_in_subprocess(&path);
        let (c2, o2) = replay_in_subprocess(&path);
        let verdict1 = o1.lines().filter(|l| l.starts_with("REPLAY-")).last().unwrap_or("").to_string();
        let verdict2 = o2.lines().filter(|l| l.starts_with("REPLAY-")).last().unwrap_or("").to_string();
        // addresses in messages differ between processes: compare with hex literals masked
        let mask = |s: &str| -> String {
            let mut out = String::new();
            let b: Vec<char> = s.chars().collect();
            let mut i = 0;
            while i < b.len() {
                if b[i] == '0' && i + 1 < b.len() && b[i + 1] == 'x' {
                    out.push_str("0x?");
                    i += 2;
                    while i < b.len() && b[i].is_ascii_hexdigit() {
                        i += 1;
                    }
                } else {
                    out.push(b[i]);
                    i += 1;
                }
            }
            out
        };
        // under std's RandomState the implementation's behaviour may legitimately differ in detail from
        // process to process when (and only when) it depends on hash values, which is C18's subject:
        // there the two replays must fail in the same way up to the numbers in the message
        let random_hasher = c.hasher == <types::StdRandom as types::HB>::NAME;
        let class = |s: &str| -> String {
            let m = mask(s);
            if random_hasher {
                let mut t: String = m.chars().filter(|ch| !ch.is_ascii_digit()).collect();
                t.truncate(160);
                t
            } else {
                m
            }
        };
        if c1 != c2 || class(&verdict1) != class(&verdict2) {
            eprintln!("replay of {path} is not deterministic ({c1} vs {c2}): machinery error, no verdict");
            machinery_error = true;
            continue;
        }
        if c1 == 0 {
            eprintln!("case {path} does not reproduce when replayed alone: machinery error, no verdict\n  {}", c.detail);
            machinery_error = true;
            continue;
        }
        let sig = c.signature();
        if let Some(k) = known.open.iter().find(|k| k.0 == prop && sig.contains(&k.1)) {
            if !known_seen.contains(&k.1) {
                println!("KNOWN-FINDING: property={prop} {}", k.2);
                known_seen.push(k.1.clone());
            }
            continue;
        }
        violations += 1;
        println!("VIOLATION property={prop} replay={path}");
        println!("  kind={} root={:?}", if c.double { "DoublePriorityQueue" } else { "PriorityQueue" }, c.root);
        println!("  ops={:?} last={:?} probe={:?}", c.ops, c.last, c.probe);
        println!("  {}", c.detail);
        reported.push(json!({"replay": path, "signature": sig, "detail": c.detail}));
    }
    // Miri stage (thorough tier of the memory-safety properties)
    let mut miri_summary = Value::Null;
    if tier == Tier::Thorough && props::has_miri_stage(prop) && violations == 0 && std::env::var_os("PQMC_NO_MIRI").is_none() {
        let (ok, summary, log) = run_miri_stage(prop);
        miri_summary = summary;
        match ok {
            Some(true) => {}
            Some(false) => {
                violations += 1;
                println!("VIOLATION property={prop} replay={log}");
                println!("  the reduced-bound enumeration under Miri reported undefined behaviour or an oracle violation; see the log");
            }
            None => eprintln!("miri stage of {prop} gave no verdict (see {log}); the native exploration stands on its own"),
        }
    }
    // evidence
    let wall = t0.elapsed().as_secs_f64();
    let r = result.unwrap_or_else(|| json!({}));
    if let Some(errs) = r["machinery_errors"].as_array() {
        for e in errs {
            eprintln!("machinery error (no verdict): {}", e.as_str().unwrap_or(""));
            machinery_error = true;
        }
    }
    let mut coverage = serde_json::Map::new();
    let states = r["states"].as_u64().unwrap_or(0);
    let transitions = r["transitions"].as_u64().unwrap_or(0);
    coverage.insert("states".into(), json!(states.max(1)));
    coverage.insert("transitions".into(), json!(transitions.max(1)));
    coverage.insert("traces_validated_against_impl".into(), json!(r["validated"].as_u64().unwrap_or(0)));
    let mut samples = r["samples"].as_array().cloned().unwrap_or_default();
    if samples.is_empty() {
        samples.push(json!("(worker produced no sample: it did not finish)"));
    }
    coverage.insert("samples".into(), Value::Array(samples));
    coverage.insert("exhaustive".into(), json!(r["exhaustive"].as_bool().unwrap_or(false) && clean));
    coverage.insert("distinct_outcomes".into(), r["distinct_outcomes"].clone());
    coverage.insert("layers".into(), r["layers"].clone());
    coverage.insert("explanation".into(), json!(props::explanation(prop)));
    coverage.insert("worker_finished".into(), json!(clean));
    if !miri_summary.is_null() {
        coverage.insert("miri_stage".into(), miri_summary);
    }
    coverage.insert("violations_reported".into(), Value::Array(reported));
    coverage.insert("known_findings_seen".into(), json!(known_seen));
    if let Some(e) = r["extra"].as_object() {
        for (k, v) in e {
            coverage.insert(k.clone(), v.clone());
        }
    }
    let ev = json!({
        "property_id": prop,
        "tier": tier_s,
        "seed": seed() as i64,
        "level": "model_checking",
        "coverage": Value::Object(coverage),
        "assumptions": props::assumptions(prop),
        "wall_s": wall,
        "violations": violations,
    });
    let _ = std::fs::create_dir_all(format!("{}/evidence", out_dir()));
    std::fs::write(format!("{}/evidence/{prop}.json", out_dir()), serde_json::to_string_pretty(&ev).unwrap()).unwrap();
    println!(
        "{prop} {tier_s}: states={states} transitions={transitions} violations={violations} known={} wall={wall:.1}s",
        known_seen.len()
    );
    if violations > 0 {
        1
    } else if machinery_error {
        2
    } else {
        0
    }
}
