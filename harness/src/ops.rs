//! Operation alphabet, reference model (a boring map) and the legality oracle.
//!
//! `step` executes one operation on the REAL queue, checks the return value (and everything the
//! operation shows to user code) against the reference model, and advances the model. Where the
//! API leaves a choice (ties, append clashes, payload kept by extend) the oracle accepts every
//! permitted answer and follows the implementation's choice.

use crate::queue::*;
use crate::types::*;
use serde::{Deserialize, Serialize};
use std::collections::BTreeMap;
use std::panic::{catch_unwind, AssertUnwindSafe};

/// key -> (payload, priority)
pub type Model = BTreeMap<u32, (u8, i32)>;

#[derive(Clone, Copy, Debug, PartialEq, Eq, Hash, Serialize, Deserialize, PartialOrd, Ord)]
pub enum End {
    Drop,
    Forget,
}

#[derive(Clone, Copy, Debug, PartialEq, Eq, Hash, Serialize, Deserialize, PartialOrd, Ord)]
pub struct Hint {
    pub lo: usize,
    pub hi: Option<usize>,
}

/// One step of an iter_mut program: advance from front/back, optionally write priority / payload.
#[derive(Clone, Copy, Debug, PartialEq, Eq, Hash, Serialize, Deserialize, PartialOrd, Ord)]
pub struct ImStep {
    pub back: bool,
    pub prio: Option<i32>,
    pub payload: Option<u8>,
    /// > 0: advance with nth(skip) / nth_back(skip) instead of next / next_back
    #[serde(default)]
    pub skip: u32,
}

#[derive(Clone, Debug, PartialEq, Eq, Hash, Serialize, Deserialize, PartialOrd, Ord)]
pub enum Op {
    Push(u32, u8, i32),
    PushInc(u32, u8, i32),
    PushDec(u32, u8, i32),
    /// key, new priority, lookup through the borrowed form
    Change(u32, i32, bool),
    ChangeBy(u32, i32, bool),
    Remove(u32, bool),
    PopHi,
    PopLo,
    PopIf { hi: bool, ret: bool, write: Option<i32> },
    /// keys to drop
    Retain(Vec<u32>),
    /// keys to drop, (key -> new priority) rewrites (applied to every visited element, kept or not)
    RetainMut(Vec<u32>, Vec<(u32, i32)>),
    IterMut { steps: Vec<ImStep>, end: End, via_ref: bool },
    /// `q.iter_mut().for_each(..)`: the i-th visited element gets writes[i] (None = untouched)
    IterMutForEach {
        writes: Vec<Option<i32>>,
        /// calls made before for_each takes over: false = next, true = next_back (nothing written)
        #[serde(default)]
        pre: Vec<bool>,
        /// consume through rev().for_each (rfold) instead
        #[serde(default)]
        rev: bool,
    },
    /// `q.iter_mut().find(..)` stopping at the j-th element, which gets a priority written
    IterMutFind { stop_at: u32, prio: i32 },
    /// `q.clone_from(&other)` where other is built from these pairs
    CloneFrom(Vec<Pair>),
    Extend(Vec<Pair>, Hint),
    Append(Vec<Pair>),
    Clear,
    Drain { front: u32, back: u32, end: End },
    CloneSwap,
    Reserve(usize),
    ReserveExact(usize),
    TryReserve(usize),
    TryReserveExact(usize),
    ShrinkToFit,
    GetMut(u32, u8, bool),
    PeekMut { hi: bool, payload: u8 },
    /// handled by the explorer (changes the kind of the state)
    Convert,
    /// Consuming API on a CLONE (the state is unchanged): how 0 = into_sorted_iter driven by `front`
    /// calls of next, `back` of next_back, then next until None, every call under its own
    /// catch_unwind so that the iterator is used again after a caught panic; 1 = the descending
    /// sorted vector; 2 = the ascending one (DoublePriorityQueue); 3 = into_iter; 4 = into_vec;
    /// 5 = conversion to the other kind and a drain of it
    Consume { how: u8, front: u32, back: u32 },
}

#[derive(Clone, Debug, PartialEq, Eq, Serialize, Deserialize)]
pub enum Ret {
    Unit,
    OptP(Option<i32>),
    Bool(bool),
    OptPair(Option<Pair>),
    Pairs(Vec<Pair>),
    Ok,
    Err,
    DocumentedPanic,
}

pub fn model_of(s: &Snap) -> Model {
    s.slots.iter().map(|&(k, pl, p)| (k, (pl, p))).collect()
}

fn model_max(m: &Model) -> Option<i32> {
    m.values().map(|v| v.1).max()
}
fn model_min(m: &Model) -> Option<i32> {
    m.values().map(|v| v.1).min()
}

fn panic_msg(e: &Box<dyn std::any::Any + Send>) -> String {
    if let Some(s) = e.downcast_ref::<&str>() {
        s.to_string()
    } else if let Some(s) = e.downcast_ref::<String>() {
        s.clone()
    } else if let Some(f) = e.downcast_ref::<InjectedFault>() {
        format!("injected fault {}#{}", CLASS_NAMES[f.class], f.index)
    } else {
        "<non-string panic>".into()
    }
}
pub fn panic_text(e: &Box<dyn std::any::Any + Send>) -> String {
    panic_msg(e)
}

macro_rules! bail {
    ($($t:tt)*) => { return Err(format!($($t)*)) };
}

/// Does the element `peek` reports on the chosen end have key `k`?
fn peek_key<Q: QueueLike>(q: &Q, hi: bool) -> Option<Pair> {
    if hi {
        q.q_peek_hi().map(|(i, p)| pair_of(i, p))
    } else {
        q.q_peek_lo().map(|(i, p)| pair_of(i, p))
    }
}

/// Execute `op` on `q`, check what it returned/showed against `m`, advance `m`.
/// `unordered` = the order of `q` is currently unspecified (a leaked iter_mut guard happened).
pub fn step<Q: QueueLike>(q: &mut Q, op: &Op, m: &mut Model, unordered: &mut bool) -> Result<Ret, String> {
    match op {
        Op::Push(k, pl, p) => {
            let exp = m.get(k).map(|v| v.1);
            let r = q.q_push(Item::new(*k, *pl), Prio::new(*p)).map(|x| x.v);
            if r != exp {
                bail!("push({k},{p}) returned {r:?}, the map says the previous priority is {exp:?}");
            }
            match m.get_mut(k) {
                Some(v) => v.1 = *p,
                None => {
                    m.insert(*k, (*pl, *p));
                }
            }
            Ok(Ret::OptP(r))
        }
        Op::PushInc(k, pl, p) | Op::PushDec(k, pl, p) => {
            let inc = matches!(op, Op::PushInc(..));
            let name = if inc { "push_increase" } else { "push_decrease" };
            let r = if inc {
                q.q_push_increase(Item::new(*k, *pl), Prio::new(*p))
            } else {
                q.q_push_decrease(Item::new(*k, *pl), Prio::new(*p))
            }
            .map(|x| x.v);
            let exp = match m.get_mut(k) {
                None => {
                    m.insert(*k, (*pl, *p));
                    None
                }
                Some(v) => {
                    let moves = if inc { *p > v.1 } else { *p < v.1 };
                    if moves {
                        let old = v.1;
                        v.1 = *p;
                        Some(old)
                    } else {
                        Some(*p)
                    }
                }
            };
            if r != exp {
                bail!("{name}({k},{p}) returned {r:?}, expected {exp:?}");
            }
            Ok(Ret::OptP(r))
        }
        Op::Change(k, p, b) => {
            let r = if *b {
                q.q_change_priority_b(&Key(*k), Prio::new(*p))
            } else {
                q.q_change_priority(&Item::new(*k, 0xEE), Prio::new(*p))
            }
            .map(|x| x.v);
            let exp = m.get(k).map(|v| v.1);
            if r != exp {
                bail!("change_priority({k},{p}) returned {r:?}, expected old priority {exp:?}");
            }
            if let Some(v) = m.get_mut(k) {
                v.1 = *p;
            }
            Ok(Ret::OptP(r))
        }
        Op::ChangeBy(k, p, b) => {
            let mut calls = 0;
            let mut seen = None;
            let f = |pr: &mut Prio| {
                fault_point(C_CLOSURE);
                calls += 1;
                seen = Some(pr.v);
                *pr = Prio::new(*p);
            };
            let r = if *b {
                q.q_change_priority_by_b(&Key(*k), f)
            } else {
                q.q_change_priority_by(&Item::new(*k, 0xEE), f)
            };
            let exp = m.get(k).map(|v| v.1);
            if r != exp.is_some() {
                bail!("change_priority_by({k}) returned {r}, item present: {}", exp.is_some());
            }
            if calls != exp.is_some() as u32 {
                bail!("change_priority_by({k}) called the setter {calls} times");
            }
            if seen != exp {
                bail!("change_priority_by({k}) showed the setter priority {seen:?}, stored is {exp:?}");
            }
            if let Some(v) = m.get_mut(k) {
                v.1 = *p;
            }
            Ok(Ret::Bool(r))
        }
        Op::Remove(k, b) => {
            let r = if *b { q.q_remove_b(&Key(*k)) } else { q.q_remove(&Item::new(*k, 0xEE)) }
                .map(|(i, p)| pair_of(&i, &p));
            let exp = m.remove(k).map(|v| (*k, v.0, v.1));
            if r != exp {
                bail!("remove({k}) returned {r:?}, expected the stored pair {exp:?}");
            }
            Ok(Ret::OptPair(r))
        }
        Op::PopHi | Op::PopLo => {
            let hi = matches!(op, Op::PopHi);
            let name = if !Q::DOUBLE { "pop" } else if hi { "pop_max" } else { "pop_min" };
            let pk = peek_key(q, hi);
            mark_cmp();
            let r = if hi { q.q_pop_hi() } else { q.q_pop_lo() }.map(|(i, p)| pair_of(&i, &p));
            match r {
                None => {
                    if !m.is_empty() {
                        bail!("{name} returned None on a queue holding {} elements", m.len());
                    }
                }
                Some((k, pl, p)) => {
                    match m.get(&k) {
                        Some(v) if *v == (pl, p) => {}
                        other => bail!("{name} returned ({k},{pl},{p}) but the map holds {other:?} for that item"),
                    }
                    if !*unordered {
                        let ext = if hi { model_max(m) } else { model_min(m) }.unwrap();
                        if p != ext {
                            bail!("{name} returned priority {p} while the extreme stored priority is {ext}");
                        }
                        if pk.map(|x| x.0) != Some(k) {
                            bail!("{name} removed item {k} but the preceding peek reported {pk:?}");
                        }
                    }
                    m.remove(&k);
                }
            }
            Ok(Ret::OptPair(r))
        }
        Op::PopIf { hi, ret, write } => {
            let name = if !Q::DOUBLE { "pop_if" } else if *hi { "pop_max_if" } else { "pop_min_if" };
            let pk = peek_key(q, *hi);
            mark_cmp();
            let mut calls = 0;
            let mut seen: Option<Pair> = None;
            let f = |i: &mut Item, p: &mut Prio| {
                fault_point(C_CLOSURE);
                calls += 1;
                seen = Some(pair_of(i, p));
                if let Some(w) = write {
                    *p = Prio::new(*w);
                }
                *ret
            };
            let r = if *hi { q.q_pop_hi_if(f) } else { q.q_pop_lo_if(f) }.map(|(i, p)| pair_of(&i, &p));
            if m.is_empty() {
                if calls != 0 || r.is_some() {
                    bail!("{name} on an empty queue called the predicate {calls} times / returned {r:?}");
                }
                return Ok(Ret::OptPair(None));
            }
            if calls != 1 {
                bail!("{name} called its predicate {calls} times on a non-empty queue");
            }
            let (k, pl, p) = seen.unwrap();
            match m.get(&k) {
                Some(v) if *v == (pl, p) => {}
                other => bail!("{name} showed its predicate ({k},{pl},{p}) but the map holds {other:?}"),
            }
            if !*unordered {
                let ext = if *hi { model_max(m) } else { model_min(m) }.unwrap();
                if p != ext {
                    bail!("{name} showed its predicate priority {p}, the extreme stored priority is {ext}");
                }
                if pk.map(|x| x.0) != Some(k) {
                    bail!("{name} showed its predicate item {k} but the preceding peek reported {pk:?}");
                }
            }
            let newp = write.unwrap_or(p);
            if *ret {
                if r != Some((k, pl, newp)) {
                    bail!("{name} (predicate true, wrote {write:?}) returned {r:?}, expected {:?}", (k, pl, newp));
                }
                m.remove(&k);
            } else {
                if r.is_some() {
                    bail!("{name} (predicate false) returned {r:?}");
                }
                m.get_mut(&k).unwrap().1 = newp;
            }
            Ok(Ret::OptPair(r))
        }
        Op::Retain(dropk) => {
            let mut log: Vec<Pair> = vec![];
            q.q_retain(|i, p| {
                fault_point(C_CLOSURE);
                log.push(pair_of(i, p));
                !dropk.contains(&i.key)
            });
            check_visit_log("retain", &mut log, m)?;
            m.retain(|k, _| !dropk.contains(k));
            Ok(Ret::Unit)
        }
        Op::RetainMut(dropk, rw) => {
            let mut log: Vec<Pair> = vec![];
            q.q_retain_mut(|i, p| {
                fault_point(C_CLOSURE);
                log.push(pair_of(i, p));
                if let Some((_, np)) = rw.iter().find(|(k, _)| *k == i.key) {
                    *p = Prio::new(*np);
                }
                !dropk.contains(&i.key)
            });
            check_visit_log("retain_mut", &mut log, m)?;
            for (k, np) in rw {
                if let Some(v) = m.get_mut(k) {
                    v.1 = *np;
                }
            }
            m.retain(|k, _| !dropk.contains(k));
            Ok(Ret::Unit)
        }
        Op::IterMut { steps, end, via_ref } => {
            let mut it = if *via_ref { q.q_iter_mut_ref() } else { q.q_iter_mut() };
            let mut addrs: Vec<(usize, usize)> = vec![];
            let mut yielded: Vec<u32> = vec![];
            let mut out = vec![];
            // elements passed over by nth / nth_back (consumed, never handed out)
            let mut skipped = 0usize;
            for st in steps {
                let e = if st.back {
                    match if st.skip > 0 { it.nth_back(st.skip as usize) } else { it.nb() } {
                        Some(e) => e,
                        None => bail!("iter_mut of {} does not offer next_back", Q::KIND),
                    }
                } else if st.skip > 0 {
                    it.nth(st.skip as usize)
                } else {
                    it.nx()
                };
                match e {
                    None => {
                        if st.skip > 0 {
                            // nth past the end consumes everything that was left
                            if yielded.len() + skipped + st.skip as usize + 1 <= m.len() {
                                bail!("iter_mut: nth({}) returned None with {} elements left", st.skip, m.len() - yielded.len() - skipped);
                            }
                            skipped = m.len() - yielded.len();
                        } else if yielded.len() + skipped != m.len() {
                            bail!("iter_mut ended after {} of {} elements", yielded.len(), m.len());
                        }
                        // after exhaustion the length must be 0 (and asking for it must not panic)
                        if let Some(l) = it.xlen() {
                            if l != 0 {
                                bail!("iter_mut: len() = {l} after exhaustion");
                            }
                        }
                        let _ = it.hint();
                    }
                    Some((i, p)) => {
                        let a = (i as *mut Item as usize, p as *mut Prio as usize);
                        if addrs.contains(&a) || addrs.iter().any(|x| x.0 == a.0 || x.1 == a.1) {
                            bail!("iter_mut yielded the same element twice (item {}, address {:#x})", i.key, a.0);
                        }
                        addrs.push(a);
                        let cur = pair_of(i, p);
                        match m.get(&cur.0) {
                            Some(v) if *v == (cur.1, cur.2) => {}
                            other => bail!("iter_mut yielded {cur:?} but the map holds {other:?}"),
                        }
                        if yielded.contains(&cur.0) {
                            bail!("iter_mut yielded item {} twice", cur.0);
                        }
                        yielded.push(cur.0);
                        out.push(cur);
                        skipped += st.skip as usize;
                        if yielded.len() + skipped > m.len() {
                            bail!("iter_mut: nth({}) yielded an element although fewer than {} were left", st.skip, st.skip + 1);
                        }
                        // the reported length follows the progress, wherever a length is declared
                        let left = m.len() - yielded.len() - skipped;
                        if let Some(l) = it.xlen() {
                            if l != left {
                                bail!("iter_mut: len() = {l} after {} of {} elements were yielded and {skipped} skipped", yielded.len(), m.len());
                            }
                        }
                        let h = it.hint();
                        if h.0 > left || h.1.map_or(false, |u| u < left) {
                            bail!("iter_mut: size_hint() = {h:?} with {left} elements left");
                        }
                        let v = m.get_mut(&cur.0).unwrap();
                        if let Some(np) = st.prio {
                            *p = Prio::new(np);
                            v.1 = np;
                        }
                        if let Some(npl) = st.payload {
                            i.payload = npl;
                            v.0 = npl;
                        }
                    }
                }
            }
            match end {
                End::Drop => drop(it),
                End::Forget => {
                    std::mem::forget(it);
                    if m.len() > 1 {
                        *unordered = true;
                    }
                }
            }
            Ok(Ret::Pairs(out))
        }
        Op::IterMutForEach { writes, pre, rev } => {
            let mut it = q.q_iter_mut();
            let mut early: Vec<Pair> = vec![];
            for &b in pre {
                let got = if b {
                    match it.nb() {
                        Some(x) => x,
                        None => None,
                    }
                } else {
                    it.nx()
                };
                if let Some((i, p)) = got {
                    early.push(pair_of(i, p));
                }
            }
            let mut seen: Vec<Pair> = vec![];
            let mut ix = 0usize;
            if *rev {
                // the writes happen inside the closure, while the iterator is alive
                let offered = it.rev_for_each_(&mut |(i, p): (&mut Item, &mut Prio)| {
                    fault_point(C_CLOSURE);
                    seen.push(pair_of(i, p));
                    if let Some(Some(np)) = writes.get(ix) {
                        *p = Prio::new(*np);
                    }
                    ix += 1;
                });
                if !offered {
                    // this iterator type is not double-ended: nothing was asked of it
                    return Ok(Ret::Pairs(vec![]));
                }
            } else {
                it.for_each_(&mut |(i, p): (&mut Item, &mut Prio)| {
                    fault_point(C_CLOSURE);
                    seen.push(pair_of(i, p));
                    if let Some(Some(np)) = writes.get(ix) {
                        *p = Prio::new(*np);
                    }
                    ix += 1;
                });
            }
            let mut log = seen.clone();
            if pre.is_empty() && !*rev {
                check_visit_log("iter_mut().for_each", &mut log, m)?;
            } else {
                // the elements taken by the explicit calls and the ones for_each visits together are
                // every stored element exactly once (fewer only if the prefix alone exhausted it)
                let mut all = early.clone();
                all.extend(seen.iter().copied());
                if early.len() < pre.len() && !seen.is_empty() {
                    bail!("iter_mut(): a call of the prefix {pre:?} returned None, yet for_each still visited {seen:?}");
                }
                check_visit_log("iter_mut() advanced from both ends, then for_each", &mut all, m)?;
            }
            for (j, pr) in seen.iter().enumerate() {
                if let Some(Some(np)) = writes.get(j) {
                    m.get_mut(&pr.0).unwrap().1 = *np;
                }
            }
            Ok(Ret::Pairs(seen))
        }
        Op::IterMutFind { stop_at, prio } => {
            let mut it = q.q_iter_mut();
            let mut n = 0u32;
            let found = it.find_(&mut |_t: &(&mut Item, &mut Prio)| {
                n += 1;
                n > *stop_at
            });
            let mut out = vec![];
            if let Some((i, p)) = found {
                let cur = pair_of(i, p);
                if m.get(&cur.0) != Some(&(cur.1, cur.2)) {
                    bail!("iter_mut().find yielded {cur:?}, the map holds {:?}", m.get(&cur.0));
                }
                *p = Prio::new(*prio);
                m.get_mut(&cur.0).unwrap().1 = *prio;
                out.push(cur);
            } else if (*stop_at as usize) < m.len() {
                bail!("iter_mut().find stopped before element {} of {}", stop_at, m.len());
            }
            drop(it);
            Ok(Ret::Pairs(out))
        }
        Op::CloneFrom(other) => {
            let mut o = Q::q_new();
            let mut om = Model::new();
            for &pr in other {
                let (i, p) = mk(pr);
                o.q_push(i, p);
                match om.get_mut(&pr.0) {
                    Some(v) => v.1 = pr.2,
                    None => {
                        om.insert(pr.0, (pr.1, pr.2));
                    }
                }
            }
            let so = o.snap();
            {
                // the same call into a target that has spare capacity from its earlier life
                let mut t = q.clone();
                t.q_reserve(64);
                t.q_clone_from(&o);
                if t.snap() != so {
                    bail!("clone_from into a target with spare capacity gives a different arrangement than its source: {:?} vs {:?}", t.snap(), so);
                }
            }
            q.q_clone_from(&o);
            if o.snap() != so {
                bail!("clone_from changed its source");
            }
            if q.snap() != so {
                bail!("clone_from gives a different arrangement than its source: {:?} vs {:?}", q.snap(), so);
            }
            *m = om;
            *unordered = false;
            Ok(Ret::Unit)
        }
        Op::Extend(seq, hint) => {
            let before = m.clone();
            let v: Vec<(Item, Prio)> = seq.iter().map(|&pr| mk(pr)).collect();
            q.q_extend(Hinted::new(v, hint.lo, hint.hi));
            for &(k, pl, p) in seq {
                match m.get_mut(&k) {
                    Some(v) => v.1 = p,
                    None => {
                        m.insert(k, (pl, p));
                    }
                }
            }
            // like push, extend only updates the priority of an item that is already stored: the
            // stored item value stays (C12), whichever internal strategy is chosen (C07)
            let _ = before;
            Ok(Ret::Unit)
        }
        Op::Append(other) => {
            let mut o = Q::q_new();
            for &pr in other {
                let (i, p) = mk(pr);
                o.q_push(i, p);
            }
            let olen = o.q_len();
            let slen = m.len();
            mark_cmp();
            {
                // if user code panics inside append (fault layer), the OTHER queue is still the caller's:
                // it is used again (peeks, guards, a push and pops) before the panic travels on
                let r = catch_unwind(AssertUnwindSafe(|| q.q_append(&mut o)));
                if let Err(e) = r {
                    let _ = catch_unwind(AssertUnwindSafe(|| {
                        let _ = o.q_peek_hi().map(|x| x.1.v);
                        let _ = o.q_peek_lo().map(|x| x.1.v);
                        let _ = o.q_peek_hi_mut().map(|x| x.1.v);
                    }));
                    let _ = catch_unwind(AssertUnwindSafe(|| o.q_pop_hi_if(|_, _| false).is_some()));
                    let _ = catch_unwind(AssertUnwindSafe(|| drop(o.q_iter_mut())));
                    let _ = catch_unwind(AssertUnwindSafe(|| {
                        o.q_push(Item::new(7_000_000, 0), Prio::new(0));
                    }));
                    for _ in 0..3 {
                        let _ = catch_unwind(AssertUnwindSafe(|| o.q_pop_hi().is_some()));
                        let _ = catch_unwind(AssertUnwindSafe(|| o.q_pop_lo().is_some()));
                    }
                    let _ = catch_unwind(AssertUnwindSafe(move || drop(o)));
                    std::panic::resume_unwind(e);
                }
            }
            let append_cmps = cmps_since_mark();
            let os = o.snap();
            if o.q_len() != 0 || !o.q_is_empty() || os.map_len != 0 || !os.heap.is_empty() || !os.qp.is_empty() || os.size != 0 {
                bail!("append left the other queue non-empty: {os:?}");
            }
            if o.q_peek_hi().is_some() || o.q_pop_hi().is_some() {
                bail!("append left the other queue with something to peek/pop");
            }
            let mut om: Model = Model::new();
            for &(k, pl, p) in other {
                match om.get_mut(&k) {
                    Some(v) => v.1 = p,
                    None => {
                        om.insert(k, (pl, p));
                    }
                }
            }
            for (k, ov) in om {
                match m.get(&k).copied() {
                    None => {
                        m.insert(k, ov);
                    }
                    Some(sv) => {
                        if olen > slen {
                            // the other queue was longer: either element may stay
                            if let Some((i, p)) = q.q_get_b(&Key(k)) {
                                if (i.payload, p.v) == ov {
                                    m.insert(k, ov);
                                }
                            }
                        }
                        let _ = sv;
                    }
                }
            }
            // observation calls above compare nothing, but keep the count of the call itself
            let _ = append_cmps;
            Ok(Ret::Unit)
        }
        Op::Clear => {
            q.q_clear();
            m.clear();
            *unordered = false;
            Ok(Ret::Unit)
        }
        Op::Drain { front, back, end } => {
            let mut out = vec![];
            // the one sequence a double-ended drain takes its elements from: a full forward drain of a clone
            let mut fwd: Vec<u32> = vec![];
            {
                let mut c = q.clone();
                let mut it = c.q_drain();
                while let Some((i, _)) = it.nx() {
                    fwd.push(i.key);
                    if fwd.len() > m.len() + 1 {
                        break;
                    }
                }
            }
            {
                let mut it = q.q_drain();
                for _ in 0..*front {
                    if let Some((i, p)) = it.nx() {
                        out.push(pair_of(&i, &p));
                    }
                }
                for _ in 0..*back {
                    match it.nb() {
                        None => bail!("drain does not offer next_back"),
                        Some(Some((i, p))) => out.push(pair_of(&i, &p)),
                        Some(None) => {}
                    }
                }
                match end {
                    End::Drop => drop(it),
                    End::Forget => std::mem::forget(it),
                }
            }
            let want = (*front as usize + *back as usize).min(m.len());
            if fwd.len() == m.len() {
                let nf = (*front as usize).min(m.len());
                let mut expect: Vec<u32> = fwd[..nf].to_vec();
                let nb = want - nf;
                expect.extend(fwd.iter().rev().take(nb));
                let got: Vec<u32> = out.iter().map(|x| x.0).collect();
                if got != expect {
                    bail!("drain: {front} calls of next then {back} of next_back yielded items {got:?}; taking them from the two ends of the forward order {fwd:?} gives {expect:?}");
                }
            }
            if out.len() != want {
                bail!("drain yielded {} elements for {} calls on {} stored", out.len(), front + back, m.len());
            }
            let mut seen = vec![];
            for &(k, pl, p) in &out {
                if seen.contains(&k) {
                    bail!("drain yielded item {k} twice");
                }
                seen.push(k);
                if m.get(&k) != Some(&(pl, p)) {
                    bail!("drain yielded ({k},{pl},{p}) but the map holds {:?}", m.get(&k));
                }
            }
            m.clear();
            *unordered = false;
            Ok(Ret::Pairs(out))
        }
        Op::CloneSwap => {
            let c = q.clone();
            *q = c;
            Ok(Ret::Unit)
        }
        Op::Reserve(a) | Op::ReserveExact(a) => {
            let exact = matches!(op, Op::ReserveExact(_));
            let r = catch_unwind(AssertUnwindSafe(|| {
                if exact {
                    q.q_reserve_exact(*a)
                } else {
                    q.q_reserve(*a)
                }
            }));
            match r {
                Ok(()) => {
                    let need = m.len().checked_add(*a);
                    match need {
                        Some(n) if q.q_capacity() >= n => Ok(Ret::Ok),
                        _ => bail!("reserve({a}) returned but capacity() = {} < len {} + {a}", q.q_capacity(), m.len()),
                    }
                }
                Err(e) => {
                    let msg = panic_msg(&e);
                    // documented: "Panics if the new capacity overflows usize" (reported by the
                    // map or the vectors as a capacity overflow)
                    let overflowing = m.len().checked_add(*a).map_or(true, |n| n > (isize::MAX as usize) / 16);
                    if overflowing && msg.to_lowercase().contains("capacity overflow") {
                        Ok(Ret::DocumentedPanic)
                    } else {
                        bail!("reserve({a}) panicked: {msg}")
                    }
                }
            }
        }
        Op::TryReserve(a) | Op::TryReserveExact(a) => {
            let r = if matches!(op, Op::TryReserveExact(_)) { q.q_try_reserve_exact(*a) } else { q.q_try_reserve(*a) };
            match r {
                Ok(()) => {
                    match m.len().checked_add(*a) {
                        Some(n) if q.q_capacity() >= n => Ok(Ret::Ok),
                        _ => bail!("try_reserve({a}) = Ok but capacity() = {} < len {} + {a}", q.q_capacity(), m.len()),
                    }
                }
                Err(_) => {
                    if *a <= 1 << 20 {
                        bail!("try_reserve({a}) failed for a small amount");
                    }
                    Ok(Ret::Err)
                }
            }
        }
        Op::ShrinkToFit => {
            q.q_shrink_to_fit();
            if q.q_capacity() < m.len() {
                bail!("after shrink_to_fit capacity() = {} < len {}", q.q_capacity(), m.len());
            }
            Ok(Ret::Unit)
        }
        Op::GetMut(k, pl, b) => {
            let r = if *b { q.q_get_mut_b(&Key(*k)) } else { q.q_get_mut(&Item::new(*k, 0xEE)) };
            let r = r.map(|(i, p)| {
                let old = pair_of(i, p);
                i.payload = *pl;
                old
            });
            let exp = m.get(k).map(|v| (*k, v.0, v.1));
            if r != exp {
                bail!("get_mut({k}) gave {r:?}, expected {exp:?}");
            }
            if let Some(v) = m.get_mut(k) {
                v.0 = *pl;
            }
            Ok(Ret::OptPair(r))
        }
        Op::PeekMut { hi, payload } => {
            let name = if !Q::DOUBLE { "peek_mut" } else if *hi { "peek_max_mut" } else { "peek_min_mut" };
            let pk = peek_key(q, *hi);
            let r = if *hi { q.q_peek_hi_mut() } else { q.q_peek_lo_mut() };
            let r = r.map(|(i, p)| {
                let old = pair_of(i, p);
                i.payload = *payload;
                old
            });
            if r != pk {
                bail!("{name} addressed {r:?} but peek reported {pk:?}");
            }
            match r {
                None => {
                    if !m.is_empty() {
                        bail!("{name} returned None on a non-empty queue");
                    }
                }
                Some((k, pl, p)) => {
                    if m.get(&k) != Some(&(pl, p)) {
                        bail!("{name} addressed ({k},{pl},{p}) but the map holds {:?}", m.get(&k));
                    }
                    m.get_mut(&k).unwrap().0 = *payload;
                }
            }
            Ok(Ret::OptPair(r))
        }
        Op::Convert => unreachable!("Convert is handled by the explorer"),
        Op::Consume { how, front, back } => {
            let n = m.len();
            let c = q.clone();
            let mut caught = 0u32;
            let mut got: Vec<Pair> = vec![];
            match how {
                0 => {
                    let mut it = c.q_into_sorted_iter();
                    let mut plan: Vec<bool> = vec![false; *front as usize];
                    plan.extend(vec![true; *back as usize]);
                    plan.extend(vec![false; n + 3]);
                    let mut nones = 0;
                    for b in plan {
                        let r = catch_unwind(AssertUnwindSafe(|| if b { it.nb().flatten() } else { it.nx() }));
                        match r {
                            Ok(Some((i, p))) => got.push(pair_of(&i, &p)),
                            Ok(None) => {
                                nones += 1;
                                if nones > 2 {
                                    break;
                                }
                            }
                            Err(_) => caught += 1,
                        }
                        if got.len() > n + 1 {
                            break;
                        }
                    }
                    let r = catch_unwind(AssertUnwindSafe(move || drop(it)));
                    caught += r.is_err() as u32;
                }
                1 | 2 | 4 => {
                    let r = catch_unwind(AssertUnwindSafe(move || match how {
                        1 => c.q_into_desc_vec(),
                        2 if Q::DOUBLE => c.q_into_asc_vec(),
                        2 => c.q_into_desc_vec(),
                        _ => c.q_into_vec(),
                    }));
                    match r {
                        Ok(v) => {
                            if v.len() != n && caught == 0 && !*unordered {
                                bail!("a consuming conversion to a vector yielded {} of {n} items", v.len());
                            }
                        }
                        Err(_) => caught += 1,
                    }
                }
                3 => {
                    let mut it = c.q_into_iter();
                    for _ in 0..(n + 2) {
                        match catch_unwind(AssertUnwindSafe(|| it.nx())) {
                            Ok(Some((i, p))) => got.push(pair_of(&i, &p)),
                            Ok(None) => break,
                            Err(_) => caught += 1,
                        }
                    }
                }
                _ => {
                    let r = catch_unwind(AssertUnwindSafe(move || {
                        let mut o = c.q_into_other();
                        let mut k = 0;
                        while o.q_pop_hi().is_some() {
                            k += 1;
                            if k > n + 1 {
                                break;
                            }
                        }
                        k
                    }));
                    match r {
                        Ok(k) => {
                            if k != n && !*unordered {
                                bail!("the converted queue yielded {k} of {n} elements");
                            }
                        }
                        Err(_) => caught += 1,
                    }
                }
            }
            if caught == 0 && (*how == 0 || *how == 3) {
                // fault-free: every stored element exactly once
                let mut log = got.clone();
                check_visit_log("a consuming iterator", &mut log, m)?;
            }
            Ok(Ret::Unit)
        }
    }
}

fn check_visit_log(name: &str, log: &mut Vec<Pair>, m: &Model) -> Result<(), String> {
    log.sort();
    let mut want: Vec<Pair> = m.iter().map(|(k, v)| (*k, v.0, v.1)).collect();
    want.sort();
    if *log != want {
        return Err(format!("{name} showed its predicate {log:?}, stored elements are {want:?} (each must be visited exactly once)"));
    }
    Ok(())
}

// ---------------------------------------------------------------------------------------------
// state validity

fn level(i: usize) -> u32 {
    usize::BITS - (i + 1).leading_zeros() - 1
}

/// I1: the index tables are mutually consistent and agree with the reported length.
pub fn check_tables(s: &Snap) -> Result<(), String> {
    let n = s.size;
    if s.heap.len() != n || s.qp.len() != n || s.map_len != n || s.slots.len() != n {
        return Err(format!(
            "I1 table lengths disagree: size={} heap.len={} qp.len={} map.len={} slots={}",
            n, s.heap.len(), s.qp.len(), s.map_len, s.slots.len()
        ));
    }
    for (pos, &slot) in s.heap.iter().enumerate() {
        if slot >= n || s.qp[slot] != pos {
            return Err(format!("I1 heap/qp are not inverse permutations: heap={:?} qp={:?}", s.heap, s.qp));
        }
    }
    for (slot, &pos) in s.qp.iter().enumerate() {
        if pos >= n || s.heap[pos] != slot {
            return Err(format!("I1 heap/qp are not inverse permutations: heap={:?} qp={:?}", s.heap, s.qp));
        }
    }
    let mut keys: Vec<u32> = s.slots.iter().map(|x| x.0).collect();
    keys.sort();
    keys.dedup();
    if keys.len() != n {
        return Err(format!("the map holds a repeated item: {:?}", s.slots));
    }
    Ok(())
}

/// I2 (max-heap) / I3 (min-max heap) over the priorities in heap order.
pub fn check_order(s: &Snap, double: bool) -> Result<(), String> {
    let pr = |pos: usize| s.slots[s.heap[pos]].2;
    let n = s.size;
    if !double {
        for i in 1..n {
            if pr((i - 1) / 2) < pr(i) {
                return Err(format!("I2 max-heap order broken at position {i}: priorities in heap order {:?}", (0..n).map(pr).collect::<Vec<_>>()));
            }
        }
    } else {
        for i in 1..n {
            let par = (i - 1) / 2;
            // against parent
            let ok_parent = if level(par) % 2 == 0 { pr(par) <= pr(i) } else { pr(par) >= pr(i) };
            // against grandparent
            let ok_grand = if par > 0 {
                let g = (par - 1) / 2;
                if level(g) % 2 == 0 { pr(g) <= pr(i) } else { pr(g) >= pr(i) }
            } else {
                true
            };
            if !ok_parent || !ok_grand {
                return Err(format!("I3 min-max-heap order broken at position {i}: priorities in heap order {:?}", (0..n).map(pr).collect::<Vec<_>>()));
            }
        }
    }
    Ok(())
}

/// Everything observable through the non-consuming API must agree with the model.
/// `universe`: keys to probe (stored or not).
pub fn check_state<Q: QueueLike>(q: &Q, s: &Snap, m: &Model, unordered: bool, universe: &[u32]) -> Result<(), String> {
    check_tables(s)?;
    if model_of(s) != *m {
        return Err(format!("contents differ from the map: queue holds {:?}, expected {:?}", s.slots, m));
    }
    if !unordered {
        check_order(s, Q::DOUBLE)?;
    }
    if q.q_len() != m.len() || q.q_is_empty() != m.is_empty() {
        return Err(format!("len()={} is_empty()={} but the map holds {}", q.q_len(), q.q_is_empty(), m.len()));
    }
    for &k in universe.iter().chain(m.keys()) {
        let exp = m.get(&k).map(|v| (k, v.0, v.1));
        let g = q.q_get(&Item::new(k, 0xEE)).map(|(i, p)| pair_of(i, p));
        let gb = q.q_get_b(&Key(k)).map(|(i, p)| pair_of(i, p));
        let gp = q.q_get_priority(&Item::new(k, 0xEE)).map(|p| p.v);
        let gpb = q.q_get_priority_b(&Key(k)).map(|p| p.v);
        if g != exp || gb != exp || gp != exp.map(|x| x.2) || gpb != exp.map(|x| x.2) {
            return Err(format!("lookup of item {k}: get={g:?} get(borrowed)={gb:?} get_priority={gp:?}/{gpb:?}, the map says {exp:?}"));
        }
    }
    let mut it: Vec<Pair> = vec![];
    let mut di = q.q_iter();
    while let Some((i, p)) = di.nx() {
        it.push(pair_of(i, p));
    }
    drop(di);
    it.sort();
    let want: Vec<Pair> = m.iter().map(|(k, v)| (*k, v.0, v.1)).collect();
    if it != want {
        return Err(format!("iter() yields {it:?}, the map holds {want:?}"));
    }
    // peeks
    let hi = q.q_peek_hi().map(|(i, p)| pair_of(i, p));
    check_peek(if Q::DOUBLE { "peek_max" } else { "peek" }, hi, m, true, unordered)?;
    if Q::DOUBLE {
        let lo = q.q_peek_lo().map(|(i, p)| pair_of(i, p));
        check_peek("peek_min", lo, m, false, unordered)?;
    }
    Ok(())
}

fn check_peek(name: &str, got: Option<Pair>, m: &Model, hi: bool, unordered: bool) -> Result<(), String> {
    match got {
        None => {
            if !m.is_empty() {
                return Err(format!("{name} = None on a queue of {}", m.len()));
            }
        }
        Some((k, pl, p)) => {
            if m.get(&k) != Some(&(pl, p)) {
                return Err(format!("{name} reports ({k},{pl},{p}) which is not what the map holds for it: {:?}", m.get(&k)));
            }
            if !unordered {
                let ext = if hi { model_max(m) } else { model_min(m) }.unwrap();
                if p != ext {
                    return Err(format!("{name} reports priority {p}, the extreme stored priority is {ext} (contents {m:?})"));
                }
            }
        }
    }
    Ok(())
}

/// The hook must not lie: `Debug` prints the entries in heap order as `Index(slot): (item, prio)`,
/// independently of the hook.
pub fn check_hook_against_debug<Q: QueueLike>(q: &Q) -> Result<(), String> {
    let dbg = q.q_debug();
    let mut heap = vec![];
    let mut rest = dbg.as_str();
    while let Some(i) = rest.find("Index(") {
        rest = &rest[i + 6..];
        let end = rest.find(')').unwrap_or(0);
        if let Ok(v) = rest[..end].parse::<usize>() {
            heap.push(v);
        }
    }
    let s = q.snap();
    if heap != s.heap {
        return Err(format!("the hook reports heap {:?} but Debug prints the entries in order {:?}", s.heap, heap));
    }
    Ok(())
}

/// Deeper, consuming checks on clones (run once per unique state).
pub fn check_deep<Q: QueueLike>(q: &Q, m: &Model, unordered: bool) -> Result<(), String> {
    check_hook_against_debug(q)?;
    // drain a clone from the high end
    let mut c = q.clone();
    let mut mm = m.clone();
    let mut un = unordered;
    let mut last: Option<i32> = None;
    for _ in 0..=m.len() {
        let r = step(&mut c, &Op::PopHi, &mut mm, &mut un)?;
        if let Ret::OptPair(Some((_, _, p))) = r {
            if !unordered {
                if let Some(l) = last {
                    if p > l {
                        return Err(format!("draining with pop yields priority {p} after {l}"));
                    }
                }
            }
            last = Some(p);
        }
    }
    if !mm.is_empty() {
        return Err("pop returned None before the queue was exhausted".into());
    }
    if Q::DOUBLE {
        let mut c = q.clone();
        let mut mm = m.clone();
        let mut last: Option<i32> = None;
        for _ in 0..=m.len() {
            let r = step(&mut c, &Op::PopLo, &mut mm, &mut un)?;
            if let Ret::OptPair(Some((_, _, p))) = r {
                if !unordered {
                    if let Some(l) = last {
                        if p < l {
                            return Err(format!("draining with pop_min yields priority {p} after {l}"));
                        }
                    }
                }
                last = Some(p);
            }
        }
        if !mm.is_empty() {
            return Err("pop_min returned None before the queue was exhausted".into());
        }
    }
    // into_iter / into_vec of clones
    let want: Vec<Pair> = m.iter().map(|(k, v)| (*k, v.0, v.1)).collect();
    let mut got: Vec<Pair> = vec![];
    let mut it = q.clone().q_into_iter();
    while let Some((i, p)) = it.nx() {
        got.push(pair_of(&i, &p));
    }
    got.sort();
    if got != want {
        return Err(format!("into_iter yields {got:?}, the map holds {want:?}"));
    }
    let mut v: Vec<(u32, u8)> = q.clone().q_into_vec().iter().map(|i| (i.key, i.payload)).collect();
    v.sort();
    let wv: Vec<(u32, u8)> = want.iter().map(|x| (x.0, x.1)).collect();
    if v != wv {
        return Err(format!("into_vec yields {v:?}, the map holds {wv:?}"));
    }
    // get_mut sees the same elements
    let mut c = q.clone();
    for (k, v) in m {
        let g = c.q_get_mut_b(&Key(*k)).map(|(i, p)| pair_of(i, p));
        if g != Some((*k, v.0, v.1)) {
            return Err(format!("get_mut({k}) = {g:?}, the map holds {v:?}"));
        }
    }
    // the sorted vectors and the sorted iterator (also of the empty queue): every element once;
    // in order unless the order is currently unspecified
    let prio_of = |k: u32| m.get(&k).map(|v| v.1);
    let mut vs: Vec<(&str, Vec<u32>, bool)> = vec![("the descending sorted vector", q.clone().q_into_desc_vec().iter().map(|i| i.key).collect(), true)];
    if Q::DOUBLE {
        vs.push(("into_ascending_sorted_vec", q.clone().q_into_asc_vec().iter().map(|i| i.key).collect(), false));
    }
    {
        let mut it = q.clone().q_into_sorted_iter();
        let mut ks = vec![];
        while let Some((i, _)) = it.nx() {
            ks.push(i.key);
            if ks.len() > m.len() + 1 {
                break;
            }
        }
        // PriorityQueue's sorted iterator is descending, DoublePriorityQueue's ascending
        vs.push(("into_sorted_iter", ks, !Q::DOUBLE));
    }
    for (what, keys, desc) in vs {
        let mut sorted_keys = keys.clone();
        sorted_keys.sort();
        let all: Vec<u32> = m.keys().copied().collect();
        if sorted_keys != all {
            return Err(format!("{what} yields items {keys:?}, the map holds {all:?}"));
        }
        if !unordered {
            let ps: Vec<i32> = keys.iter().filter_map(|&k| prio_of(k)).collect();
            if ps.windows(2).any(|w| if desc { w[0] < w[1] } else { w[0] > w[1] }) {
                return Err(format!("{what} is not monotone: priorities {ps:?}"));
            }
        }
    }
    Ok(())
}

/// Canonical key of a state.
pub fn encode_key(double: bool, unordered: bool, s: &Snap) -> Vec<u8> {
    let mut k = Vec::with_capacity(8 + s.slots.len() * 11);
    k.push(double as u8 | (unordered as u8) << 1);
    k.push(s.size as u8);
    k.push(s.map_len as u8);
    k.push(s.heap.len() as u8);
    k.push(s.qp.len() as u8);
    for &(key, pl, p) in &s.slots {
        k.extend_from_slice(&(key as u16).to_le_bytes());
        k.push(pl);
        k.extend_from_slice(&p.to_le_bytes());
    }
    for &h in &s.heap {
        k.push(h as u8);
    }
    for &h in &s.qp {
        k.push(h as u8);
    }
    k
}
