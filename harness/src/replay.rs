//! Re-execute one recorded case on the real queue, step by step, without the explorer.

use crate::explore::*;
use crate::ops::*;
use crate::queue::*;
use crate::types::*;
use crate::with_q;
use std::panic::{catch_unwind, AssertUnwindSafe};

#[macro_export]
macro_rules! dispatch_hasher {
    ($name:expr, $H:ident => $body:expr) => {{
        let n: &str = $name;
        if n == <$crate::types::FnvBuild as $crate::types::HB>::NAME {
            type $H = $crate::types::FnvBuild;
            $body
        } else if n == <$crate::types::FixedSip as $crate::types::HB>::NAME {
            type $H = $crate::types::FixedSip;
            $body
        } else if n == <$crate::types::CollideAll as $crate::types::HB>::NAME {
            type $H = $crate::types::CollideAll;
            $body
        } else if n == <$crate::types::Seeded as $crate::types::HB>::NAME {
            type $H = $crate::types::Seeded;
            $body
        } else {
            type $H = $crate::types::StdRandom;
            $body
        }
    }};
}

pub fn replay_file(path: &str) -> i32 {
    crate::crash::install(false);
    let s = match std::fs::read_to_string(path) {
        Ok(s) => s,
        Err(e) => {
            eprintln!("cannot read {path}: {e}");
            return 2;
        }
    };
    let c: Case = match serde_json::from_str(&s) {
        Ok(c) => c,
        Err(e) => {
            eprintln!("cannot parse {path}: {e}");
            return 2;
        }
    };
    let r = dispatch_hasher!(&c.hasher, H => replay_case::<H>(&c));
    match r {
        Ok(()) => {
            println!("REPLAY-OK the recorded case does not violate {} on this tree", c.prop);
            0
        }
        Err(e) => {
            println!("REPLAY-VIOLATION property={} {}", c.prop, e.replace('\n', " "));
            1
        }
    }
}

pub fn replay_case<H: HB>(c: &Case) -> Result<(), String> {
    println!("replaying {} on {} with hasher {}", c.prop, if c.double { "DoublePriorityQueue" } else { "PriorityQueue" }, c.hasher);
    println!("  root: {:?}", c.root);
    if c.probe.as_deref() == Some("from_iter-differential") {
        if let Root::FromIter(seq, _) = &c.root {
            return crate::post::from_iter_differential::<H>(c.double, &c.universe, seq, true).map(|_| ()).map_err(|e| e.1);
        }
    }
    if c.probe.as_deref() == Some("cost-grid") {
        return crate::cost::replay_grid(c);
    }
    if c.probe.as_deref() == Some("fault-trail") {
        return crate::e3::replay_trail::<H>("C10", c);
    }
    if c.probe.as_deref() == Some("serde-arbitrary-input") {
        if let Root::FromVec(seq) = &c.root {
            let cfg = crate::props::base_cfg("C15", 3, &[0, 1, 2], A_CORE | A_CLEAR_DRAIN);
            let r = if c.double { crate::c15::arbitrary_input::<DPQ<H>>(seq, &cfg) } else { crate::c15::arbitrary_input::<PQ<H>>(seq, &cfg) };
            return r.map(|_| ());
        }
    }
    let mut q = make_root::<H>(c.double, &c.root, &c.universe)?;
    let mut unordered = false;
    let mut m = model_of(&q.snap());
    let last_is_step = c.probe.is_none();
    for (i, op) in c.ops.iter().chain(c.last.iter().filter(|_| last_is_step)).enumerate() {
        crate::crash::set_case(|| c.clone());
        let ap = apply(&q, unordered, &m, op, &c.universe).map_err(|e| format!("step {i} {op:?}: {e}"))?;
        println!("  step {i}: {op:?} -> {:?}; contents {:?} heap {:?}", ap.ret, ap.snap.slots, ap.snap.heap);
        q = ap.q;
        unordered = ap.unordered;
        m = ap.model;
    }
    if let Some(p) = &c.probe {
        println!("  probe: {p}");
        if p == "deep-observation" || p == "state-probes" {
            let r = catch_unwind(AssertUnwindSafe(|| with_q!(&q, x => check_deep(x, &m, unordered))));
            match r {
                Ok(r) => r?,
                Err(e) => return Err(format!("deep observation panicked: {}", panic_text(&e))),
            }
        }
        if p != "deep-observation" {
            crate::probes::replay_probe::<H>(c, &q, &m, unordered)?;
        }
    }
    Ok(())
}
