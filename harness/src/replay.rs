//! Re-execute one recorded case on the real queue, step by step, without the explorer.

use crate::explore::*;
use crate::ops::*;
use crate::queue::*;
use crate::types::*;
use crate::with_q;
use std::panic::{catch_unwind, AssertUnwindSafe};

#[macro_export]
macro_rules! dispatch_hasher {
    ($name:expr, $H:ident => $body:expr) => {{
        let n: &str = $name;
        if n == <$crate::types::FnvBuild as $crate::types::HB>::NAME {
            type $H = $crate::types::FnvBuild;
            $body
        } else if n == <$crate::types::FixedSip as $crate::types::HB>::NAME {
            type $H = $crate::types::FixedSip;
            $body
        } else if n == <$crate::types::CollideAll as $crate::types::HB>::NAME {
            type $H = $crate::types::CollideAll;
            $body
        } else if n == <$crate::types::CollideSome as $crate::types::HB>::NAME {
            type $H = $crate::types::CollideSome;
            $body
        } else if n == <$crate::types::Seeded as $crate::types::HB>::NAME {
            type $H = $crate::types::Seeded;
            $body
        } else {
            type $H = $crate::types::StdRandom;
            $body
        }
    }};
}

pub fn replay_file(path: &str) -> i32 {
    crate::crash::install(false);
    let s = match std::fs::read_to_string(path) {
        Ok(s) => s,
        Err(e) => {
            eprintln!("cannot read {path}: {e}");
            return 2;
        }
    };
    let c: Case = match serde_json::from_str(&s) {
        Ok(c) => c,
        Err(e) => {
            eprintln!("cannot parse {path}: {e}");
            return 2;
        }
    };
    let r = dispatch_hasher!(&c.hasher, H => replay_case::<H>(&c));
    match r {
        Ok(()) => {
            println!("REPLAY-OK the recorded case does not violate {} on this tree", c.prop);
            0
        }
        Err(e) => {
            println!("REPLAY-VIOLATION property={} {}", c.prop, e.replace('\n', " "));
            1
        }
    }
}

pub fn replay_case<H: HB>(c: &Case) -> Result<(), String> {
    println!("replaying {} on {} with hasher {}", c.prop, if c.double { "DoublePriorityQueue" } else { "PriorityQueue" }, c.hasher);
    println!("  root: {:?}", c.root);
    if c.probe.as_deref() == Some("from_iter-differential") {
        if let Root::FromIter(seq, _) = &c.root {
            return crate::post::from_iter_differential::<H>(c.double, &c.universe, seq, true).map(|_| ()).map_err(|e| e.1);
        }
    }
    if c.probe.as_deref() == Some("extend-twin") {
        if let Root::FromVec(pairs) = &c.root {
            return crate::props::replay_extend_twin(c.double, pairs);
        }
    }
    if c.probe.as_deref() == Some("drop-accounting-plain-priorities") {
        return crate::probes::drop_accounting_plain().map(|_| ());
    }
    if c.probe.as_deref() == Some("type-matrix") {
        return crate::typed::replay_case(c);
    }
    if c.probe.as_deref() == Some("big-equality-hashers") {
        if let Root::FromVec(pairs) = &c.root {
            return crate::props::big_equality_hashers(pairs, c.double);
        }
    }
    if c.probe.as_deref() == Some("big-equality") {
        if let Root::FromVec(pairs) = &c.root {
            return crate::props::big_equality_c14(pairs, c.double);
        }
    }
    if c.probe.as_deref() == Some("alloc-failure-grid") {
        return crate::props::replay_alloc_failure(c.double);
    }
    if c.probe.as_deref() == Some("capacity-grid") {
        let last = c.last.clone().ok_or("capacity-grid case without an operation")?;
        return if c.double { crate::props::replay_capacity_case::<DPQ<H>>(&c.ops, &last) } else { crate::props::replay_capacity_case::<PQ<H>>(&c.ops, &last) };
    }
    if c.probe.as_deref() == Some("cost-grid") {
        return crate::cost::replay_grid(c);
    }
    if c.probe.as_deref() == Some("fault-trail") {
        return crate::e3::replay_trail::<H>("C10", c);
    }
    if c.probe.as_deref() == Some("serde-arbitrary-input") {
        if let Root::FromVec(seq) = &c.root {
            let cfg = crate::props::base_cfg("C15", 3, &[0, 1, 2], A_CORE | A_CLEAR_DRAIN);
            let r = if c.double { crate::c15::arbitrary_input::<DPQ<H>>(seq, &cfg) } else { crate::c15::arbitrary_input::<PQ<H>>(seq, &cfg) };
            return r.map(|_| ());
        }
    }
    let mut q = make_root::<H>(c.double, &c.root, &c.universe)?;
    let mut unordered = false;
    let mut m = model_of(&q.snap());
    if c.probe.as_deref() == Some("cost-small-scope") {
        // history, then the last operation with its comparisons counted
        if let Some(op) = &c.last {
            for (i, o) in c.ops.iter().enumerate() {
                let ap = apply(&q, unordered, &m, o, &c.universe).map_err(|e| format!("step {i} {o:?}: {e}"))?;
                q = ap.q;
                unordered = ap.unordered;
                m = ap.model;
            }
            let n = m.len();
            let ap = apply(&q, unordered, &m, op, &c.universe).map_err(|e| format!("{op:?}: {e}"))?;
            println!("  {op:?} on {n} elements: {} comparisons", ap.cmps);
            return match crate::cost::small_scope_violation(op_name(op), q.double(), n, ap.cmps) {
                Some(e) => Err(e),
                None => Ok(()),
            };
        }
        return Err(c.detail.clone());
    }
    let last_is_step = c.probe.is_none();
    for (i, op) in c.ops.iter().chain(c.last.iter().filter(|_| last_is_step)).enumerate() {
        crate::crash::set_case(|| c.clone());
        let ap = apply(&q, unordered, &m, op, &c.universe).map_err(|e| format!("step {i} {op:?}: {e}"))?;
        println!("  step {i}: {op:?} -> {:?}; contents {:?} heap {:?}", ap.ret, ap.snap.slots, ap.snap.heap);
        q = ap.q;
        unordered = ap.unordered;
        m = ap.model;
    }
    if let Some(p) = &c.probe {
        println!("  probe: {p}");
        if p == "deep-observation" || p == "state-probes" {
            let r = catch_unwind(AssertUnwindSafe(|| with_q!(&q, x => check_deep(x, &m, unordered))));
            match r {
                Ok(r) => r?,
                Err(e) => return Err(format!("deep observation panicked: {}", panic_text(&e))),
            }
        }
        if p != "deep-observation" {
            crate::probes::replay_probe::<H>(c, &q, &m, unordered)?;
        }
    }
    Ok(())
}

/// A plain `#[test]` (public API only, `u32` items, `i32` priorities) that replays the history of
/// a recorded case and checks the queue against a BTreeMap; `None` if the case uses operations
/// that need the harness (payloads, iterator programs, fault injection).
pub fn plain_test(c: &Case) -> Option<String> {
    if c.probe.is_some() && c.probe.as_deref() != Some("deep-observation") {
        return None;
    }
    let ty = if c.double { "DoublePriorityQueue" } else { "PriorityQueue" };
    let (peek_hi, pop_hi) = if c.double { ("peek_max", "pop_max") } else { ("peek", "pop") };
    let mut s = String::new();
    s.push_str(&format!("// generated by pqmc from a recorded violation of {}: {}\n", c.prop, c.detail.replace('\n', " ")));
    s.push_str(&format!("use priority_queue::{ty};\nuse std::collections::BTreeMap;\n\n"));
    s.push_str("fn check(q: &");
    s.push_str(ty);
    s.push_str("<u32, i32>, m: &BTreeMap<u32, i32>, step: &str) {\n");
    s.push_str("    assert_eq!(q.len(), m.len(), \"len after {step}\");\n");
    s.push_str("    let mut got: Vec<(u32, i32)> = q.iter().map(|(k, p)| (*k, *p)).collect();\n    got.sort();\n");
    s.push_str("    let want: Vec<(u32, i32)> = m.iter().map(|(k, p)| (*k, *p)).collect();\n");
    s.push_str("    assert_eq!(got, want, \"contents after {step}\");\n");
    s.push_str(&format!("    assert_eq!(q.{peek_hi}().map(|x| *x.1), m.values().max().copied(), \"{peek_hi} after {{step}}\");\n"));
    if c.double {
        s.push_str("    assert_eq!(q.peek_min().map(|x| *x.1), m.values().min().copied(), \"peek_min after {step}\");\n");
    }
    s.push_str("    let mut d = q.clone();\n    let mut last = i32::MAX;\n");
    s.push_str(&format!("    while let Some((_, p)) = d.{pop_hi}() {{\n        assert!(p <= last, \"draining after {{step}} is not sorted\");\n        last = p;\n    }}\n}}\n\n"));
    s.push_str("#[test]\nfn replay() {\n    let mut m: BTreeMap<u32, i32> = BTreeMap::new();\n");
    match &c.root {
        Root::FromVec(v) => {
            s.push_str(&format!("    let v: Vec<(u32, i32)> = vec!{:?};\n", v.iter().map(|x| (x.0, x.2)).collect::<Vec<_>>()));
            s.push_str("    for (k, p) in &v {\n        m.entry(*k).or_insert(*p);\n    }\n");
            s.push_str(&format!("    let mut q: {ty}<u32, i32> = v.into();\n"));
        }
        Root::FromIter(v, _) => {
            s.push_str(&format!("    let v: Vec<(u32, i32)> = vec!{:?};\n", v.iter().map(|x| (x.0, x.2)).collect::<Vec<_>>()));
            s.push_str("    for (k, p) in &v {\n        m.insert(*k, *p);\n    }\n");
            s.push_str(&format!("    let mut q: {ty}<u32, i32> = v.into_iter().collect();\n"));
        }
        Root::Refilled(how, v) => {
            s.push_str(&format!("    let mut q: {ty}<u32, i32> = {ty}::new();\n    q.push(900, 5); q.push(901, 9); q.push(902, 1);\n"));
            let pops = format!("    while q.{pop_hi}().is_some() {{}}\n");
            s.push_str(match how {
                0 => "    q.clear();\n",
                1 => "    q.drain().for_each(drop);\n",
                2 => "    { let mut d = q.drain(); d.next(); }\n",
                3 => "    { let mut d = q.drain(); d.next(); std::mem::forget(d); }\n",
                4 => &pops,
                5 => "    q.retain(|_, _| false);\n",
                _ => "    drop(q.drain());\n",
            });
            s.push_str(&format!("    let v: Vec<(u32, i32)> = vec!{:?};\n", v.iter().map(|x| (x.0, x.2)).collect::<Vec<_>>()));
            s.push_str("    for (k, p) in &v {\n        q.push(*k, *p);\n        m.insert(*k, *p);\n    }\n");
        }
        Root::WithCapacity(n) | Root::WithCapacityAndHasher(n) => s.push_str(&format!("    let mut q: {ty}<u32, i32> = {ty}::with_capacity({n});\n")),
        _ => s.push_str(&format!("    let mut q: {ty}<u32, i32> = {ty}::new();\n")),
    }
    s.push_str("    check(&q, &m, \"construction\");\n");
    for (i, op) in c.ops.iter().chain(c.last.iter()).enumerate() {
        let line = match op {
            Op::Push(k, _, p) => format!("q.push({k}, {p}); m.insert({k}, {p});"),
            Op::PushInc(k, _, p) => format!("q.push_increase({k}, {p}); let e = m.entry({k}).or_insert({p}); if {p} > *e {{ *e = {p}; }}"),
            Op::PushDec(k, _, p) => format!("q.push_decrease({k}, {p}); let e = m.entry({k}).or_insert({p}); if {p} < *e {{ *e = {p}; }}"),
            Op::Change(k, p, _) => format!("q.change_priority(&{k}, {p}); if let Some(e) = m.get_mut(&{k}) {{ *e = {p}; }}"),
            Op::ChangeBy(k, p, _) => format!("q.change_priority_by(&{k}, |x| *x = {p}); if let Some(e) = m.get_mut(&{k}) {{ *e = {p}; }}"),
            Op::Remove(k, _) => format!("assert_eq!(q.remove(&{k}).map(|x| x.1), m.remove(&{k}));"),
            Op::PopHi => format!("if let Some((k, _)) = q.{pop_hi}() {{ m.remove(&k); }}"),
            Op::PopLo => "if let Some((k, _)) = q.pop_min() { m.remove(&k); }".to_string(),
            Op::Retain(d) => format!("let d: Vec<u32> = vec!{d:?}; q.retain(|k, _| !d.contains(k)); m.retain(|k, _| !d.contains(k));"),
            Op::Clear => "q.clear(); m.clear();".to_string(),
            Op::Extend(v, _) => format!("let v: Vec<(u32, i32)> = vec!{:?}; for (k, p) in &v {{ m.insert(*k, *p); }} q.extend(v);", v.iter().map(|x| (x.0, x.2)).collect::<Vec<_>>()),
            Op::CloneSwap => "q = q.clone();".to_string(),
            _ => return None,
        };
        s.push_str(&format!("    {line}\n    check(&q, &m, \"step {i}: {op:?}\");\n"));
    }
    s.push_str("}\n");
    Some(s)
}
