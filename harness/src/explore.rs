//! E1: closed small-scope reachability (BFS to the fixpoint) and E2: seeded deep trees, both over
//! the real implementation with the lock-step oracle of `ops.rs`.

use crate::ops::*;
use crate::queue::*;
use crate::types::*;
use crate::with_q;
use serde::{Deserialize, Serialize};
use std::collections::{BTreeMap, HashMap, HashSet};
use std::panic::{catch_unwind, AssertUnwindSafe};
use std::sync::atomic::{AtomicBool, AtomicU64, AtomicUsize, Ordering as AO};
use std::sync::{Arc, Mutex};

// alphabet flags
pub const A_PUSH: u32 = 1 << 0;
pub const A_PUSH_INCDEC: u32 = 1 << 1;
pub const A_CHANGE: u32 = 1 << 2;
pub const A_CHANGE_BY: u32 = 1 << 3;
pub const A_REMOVE: u32 = 1 << 4;
pub const A_POP: u32 = 1 << 5;
pub const A_POP_IF: u32 = 1 << 6;
pub const A_RETAIN: u32 = 1 << 7;
pub const A_RETAIN_MUT: u32 = 1 << 8;
pub const A_ITER_MUT: u32 = 1 << 9;
pub const A_ITER_MUT_BACK: u32 = 1 << 10;
pub const A_ITER_MUT_FORGET: u32 = 1 << 11;
pub const A_EXTEND: u32 = 1 << 12;
pub const A_APPEND: u32 = 1 << 13;
pub const A_CLEAR_DRAIN: u32 = 1 << 14;
pub const A_DRAIN_FORGET: u32 = 1 << 15;
pub const A_CLONE: u32 = 1 << 16;
pub const A_CAPACITY: u32 = 1 << 17;
pub const A_PAYLOAD: u32 = 1 << 18;
pub const A_CONVERT: u32 = 1 << 19;
pub const A_BORROWED: u32 = 1 << 20;
pub const A_EXTEND_HUGE_HINT: u32 = 1 << 21;
pub const A_CAPACITY_HUGE: u32 = 1 << 22;
pub const A_PEEK_MUT: u32 = 1 << 23;
/// consuming APIs on a clone (sorted iteration resumed after a caught panic, sorted vectors, into_iter, conversion)
pub const A_CONSUME: u32 = 1 << 24;

pub const A_CORE: u32 = A_PUSH | A_PUSH_INCDEC | A_CHANGE | A_CHANGE_BY | A_REMOVE | A_POP | A_POP_IF;
pub const A_BULK: u32 = A_RETAIN | A_RETAIN_MUT | A_ITER_MUT | A_EXTEND | A_APPEND | A_CLEAR_DRAIN | A_CONVERT;

/// Resident set size of this process in GB (0 if unknown); engines stop and report a cap beyond RSS_CAP_GB.
pub fn rss_gb() -> f64 {
    std::fs::read_to_string("/proc/self/statm")
        .ok()
        .and_then(|s| s.split_whitespace().nth(1).and_then(|x| x.parse::<f64>().ok()))
        .map_or(0.0, |pages| pages * 4096.0 / 1e9)
}
pub const RSS_CAP_GB: f64 = 24.0;

pub const PAYLOAD_A: u8 = 1;
pub const PAYLOAD_B: u8 = 2;
pub const PAYLOAD_C: u8 = 3;

#[derive(Clone, Debug, PartialEq, Eq, Hash, Serialize, Deserialize, PartialOrd, Ord)]
pub enum Root {
    New,
    Default,
    WithCapacity(usize),
    WithHasher,
    WithCapacityAndHasher(usize),
    FromVec(Vec<Pair>),
    FromIter(Vec<Pair>, Hint),
    /// a queue that held three other elements, was emptied (0 clear, 1 drain consumed, 2 drain
    /// partially consumed, 3 drain leaked, 4 pop until empty, 5 retain nothing, 6 drain untouched)
    /// and was refilled by pushing the pairs (distinct items)
    Refilled(u8, Vec<Pair>),
}

#[derive(Clone, Debug)]
pub struct Cfg {
    pub prop: &'static str,
    pub kinds: Vec<bool>, // double?
    pub k: u32,
    pub prios: Vec<i32>,
    pub alphabet: u32,
    /// roots: all From<Vec>/FromIterator vectors up to this length
    pub root_vec_len: usize,
    /// `other` queues of append: all queues up to this many elements
    pub append_max: usize,
    pub deep: bool,
    pub max_states: usize,
    pub threads: usize,
    pub record_costs: bool,
    /// re-derive successors of re-discovered states and compare (merge soundness)
    pub merge_check: bool,
    /// large queues: operations are addressed at structural target positions (root, its children,
    /// the last slots, both ends of every level, quartiles, first/middle/last map slot) instead of
    /// at every item, and position-quadratic families are restricted to those targets
    pub large: bool,
    /// leave out the families added for breadth (long batches with repeated items, nth steps and
    /// hand-advanced for_each in iter_mut): used by the fault layer on deep seeds in the quick tier,
    /// where every callback of every operation is a crash point
    pub lean: bool,
}

impl Cfg {
    pub fn universe(&self) -> Vec<u32> {
        (0..self.k).collect()
    }
}

pub fn build_root<Q: QueueLike>(r: &Root) -> Q {
    match r {
        Root::New => Q::q_new(),
        Root::Default => Q::q_default(),
        Root::WithCapacity(c) => Q::q_with_capacity(*c),
        Root::WithHasher => Q::q_with_hasher(),
        Root::WithCapacityAndHasher(c) => Q::q_with_capacity_and_hasher(*c),
        Root::FromVec(v) => Q::q_from_vec(v.iter().map(|&p| mk(p)).collect()),
        Root::FromIter(v, h) => Q::q_from_iter(Hinted::new(v.iter().map(|&p| mk(p)).collect(), h.lo, h.hi)),
        Root::Refilled(how, v) => {
            let mut q = Q::q_new();
            for (j, p) in [5, 9, 1].iter().enumerate() {
                q.q_push(Item::new(900 + j as u32, 0), Prio::new(*p));
            }
            match how {
                0 => q.q_clear(),
                1 => {
                    let mut it = q.q_drain();
                    while it.nx().is_some() {}
                }
                2 => {
                    let mut it = q.q_drain();
                    it.nx();
                }
                3 => {
                    let mut it = q.q_drain();
                    it.nx();
                    std::mem::forget(it);
                }
                4 => while q.q_pop_hi().is_some() {},
                5 => q.q_retain(|_, _| false),
                _ => drop(q.q_drain()),
            }
            for &p in v {
                let (i, pr) = mk(p);
                q.q_push(i, pr);
            }
            q
        }
    }
}

/// What the root must contain.
pub fn root_model(r: &Root) -> (Model, Vec<(u32, Vec<u8>)>) {
    let mut m = Model::new();
    let mut flex: Vec<(u32, Vec<u8>)> = vec![];
    match r {
        Root::FromVec(v) | Root::Refilled(_, v) => {
            for &(k, pl, p) in v {
                m.entry(k).or_insert((pl, p)); // first wins (Refilled: the items are distinct)
            }
        }
        Root::FromIter(v, _) => {
            for &(k, pl, p) in v {
                match m.get_mut(&k) {
                    Some(x) => x.1 = p, // last priority wins; payload unspecified
                    None => {
                        m.insert(k, (pl, p));
                    }
                }
                match flex.iter_mut().find(|x| x.0 == k) {
                    Some(x) => x.1.push(pl),
                    None => flex.push((k, vec![pl])),
                }
            }
        }
        _ => {}
    }
    (m, flex)
}

pub fn make_root<H: HB>(double: bool, r: &Root, universe: &[u32]) -> Result<AnyQ<H>, String> {
    let res = catch_unwind(AssertUnwindSafe(|| {
        if double {
            AnyQ::D(build_root::<DPQ<H>>(r))
        } else {
            AnyQ::P(build_root::<PQ<H>>(r))
        }
    }));
    let q = match res {
        Ok(q) => q,
        Err(e) => return Err(format!("constructor {r:?} panicked: {}", panic_text(&e))),
    };
    let (mut m, flex) = root_model(r);
    let s = q.snap();
    // FromIterator: the payload kept for a repeated item is unspecified: follow the implementation
    for (k, pls) in flex {
        if let Some(&(_, pl, _)) = s.slots.iter().find(|x| x.0 == k) {
            if pls.contains(&pl) {
                m.get_mut(&k).unwrap().0 = pl;
            }
        }
    }
    with_q!(&q, x => check_state(x, &s, &m, false, universe))
        .map_err(|e| format!("after constructor {r:?}: {e}"))?;
    match r {
        Root::WithCapacity(c) | Root::WithCapacityAndHasher(c) => {
            let cap = with_q!(&q, x => x.q_capacity());
            if cap < *c {
                return Err(format!("with_capacity({c}) gives capacity() = {cap}"));
            }
        }
        _ => {}
    }
    Ok(q)
}

/// All subsets for small queues; for larger ones a structured family (none, all, every single
/// key, every all-but-one, evens, odds, both halves, every prefix).
fn subsets(keys: &[u32]) -> Vec<Vec<u32>> {
    let n = keys.len();
    if n > 5 {
        let mut out: Vec<Vec<u32>> = vec![vec![], keys.to_vec()];
        for i in 0..n {
            out.push(vec![keys[i]]);
            out.push(keys.iter().copied().filter(|&k| k != keys[i]).collect());
            out.push(keys[..i].to_vec());
        }
        out.push(keys.iter().copied().step_by(2).collect());
        out.push(keys.iter().copied().skip(1).step_by(2).collect());
        out.push(keys[n / 2..].to_vec());
        out.sort();
        out.dedup();
        return out;
    }
    (0..(1u32 << n)).map(|mask| (0..n).filter(|i| mask >> i & 1 == 1).map(|i| keys[i]).collect()).collect()
}

/// The operation alphabet enabled by `cfg`, instantiated for a state holding `m`.
pub fn gen_ops(cfg: &Cfg, double: bool, m: &Model, back_offered: bool, out: &mut Vec<Op>) {
    let a = cfg.alphabet;
    let payload_mode = a & A_PAYLOAD != 0;
    let ins_payload = |k: u32| -> u8 {
        if !payload_mode {
            0
        } else {
            match m.get(&k) {
                // offer a payload that differs from the stored one, so a replaced item is visible
                Some(&(s, _)) if s == PAYLOAD_A => PAYLOAD_C,
                _ => PAYLOAD_A,
            }
        }
    };
    let borrowed: &[bool] = if a & A_BORROWED != 0 { &[false, true] } else { &[false] };
    let n = m.len();
    let present: Vec<u32> = m.keys().copied().collect();
    for k in 0..cfg.k {
        for &p in &cfg.prios {
            if a & A_PUSH != 0 {
                out.push(Op::Push(k, ins_payload(k), p));
            }
            if a & A_PUSH_INCDEC != 0 {
                out.push(Op::PushInc(k, ins_payload(k), p));
                out.push(Op::PushDec(k, ins_payload(k), p));
            }
            for &b in borrowed {
                if a & A_CHANGE != 0 {
                    out.push(Op::Change(k, p, b));
                }
                if a & A_CHANGE_BY != 0 {
                    out.push(Op::ChangeBy(k, p, b));
                }
            }
        }
        for &b in borrowed {
            if a & A_REMOVE != 0 {
                out.push(Op::Remove(k, b));
            }
            if payload_mode {
                out.push(Op::GetMut(k, PAYLOAD_B, b));
            }
        }
    }
    let ends: &[bool] = if double { &[true, false] } else { &[true] };
    if a & A_POP != 0 {
        out.push(Op::PopHi);
        if double {
            out.push(Op::PopLo);
        }
    }
    if payload_mode {
        for &hi in ends {
            out.push(Op::PeekMut { hi, payload: PAYLOAD_B });
        }
    } else if a & A_PEEK_MUT != 0 {
        // addresses the element peek reported; rewrites the payload it already has
        for &hi in ends {
            out.push(Op::PeekMut { hi, payload: 0 });
        }
    }
    if a & A_POP_IF != 0 {
        for &hi in ends {
            for ret in [true, false] {
                out.push(Op::PopIf { hi, ret, write: None });
                for &p in &cfg.prios {
                    out.push(Op::PopIf { hi, ret, write: Some(p) });
                }
            }
        }
    }
    if a & A_RETAIN != 0 {
        for d in subsets(&present) {
            out.push(Op::Retain(d));
        }
    }
    if a & A_RETAIN_MUT != 0 {
        let lo = *cfg.prios.iter().min().unwrap() as i64;
        let hi = *cfg.prios.iter().max().unwrap() as i64;
        let mut rewrites: Vec<Vec<(u32, i32)>> = vec![vec![]];
        for &p in &cfg.prios {
            rewrites.push(present.iter().map(|&k| (k, p)).collect());
        }
        // mirror: p -> lo + hi - p (raises the low ones, lowers the high ones)
        rewrites.push(present.iter().map(|&k| (k, (lo + hi - m[&k].1 as i64) as i32)).collect());
        for d in subsets(&present) {
            for rw in &rewrites {
                out.push(Op::RetainMut(d.clone(), rw.clone()));
            }
        }
    }
    if a & A_ITER_MUT != 0 {
        // by-value consumers built on fold / try_fold
        out.push(Op::IterMutForEach { writes: vec![], pre: vec![], rev: false });
        for &p in &cfg.prios {
            out.push(Op::IterMutForEach { writes: vec![Some(p); n], pre: vec![], rev: false });
            for j in 0..n.min(6) {
                let mut w = vec![None; n];
                w[j] = Some(p);
                out.push(Op::IterMutForEach { writes: w, pre: vec![], rev: false });
                out.push(Op::IterMutFind { stop_at: j as u32, prio: p });
            }
        }
        if n >= 2 {
            // mirror all priorities (raises the low ones, lowers the high ones)
            let lo = *cfg.prios.iter().min().unwrap() as i64;
            let hi = *cfg.prios.iter().max().unwrap() as i64;
            out.push(Op::IterMutForEach { writes: (0..n).map(|i| Some(if i % 2 == 0 { hi as i32 } else { lo as i32 })).collect(), pre: vec![], rev: false });
        }
        // for_each / rev().for_each after the iterator was advanced by hand (from either end)
        if !cfg.lean {
            let mut pres: Vec<Vec<bool>> = vec![vec![false], vec![false, false]];
            if back_offered && a & A_ITER_MUT_BACK != 0 {
                pres.extend([vec![true], vec![false, true], vec![true, false], vec![true, true], vec![false, true, false]]);
            }
            let hi = *cfg.prios.iter().max().unwrap();
            let lo = *cfg.prios.iter().min().unwrap();
            for pre in pres {
                for p in [lo, hi] {
                    out.push(Op::IterMutForEach { writes: vec![Some(p); n], pre: pre.clone(), rev: false });
                    if back_offered {
                        out.push(Op::IterMutForEach { writes: vec![Some(p); n], pre: pre.clone(), rev: true });
                    }
                }
            }
            if back_offered {
                out.push(Op::IterMutForEach { writes: vec![Some(hi); n], pre: vec![], rev: true });
            }
        }
        let mut dirs: Vec<bool> = vec![false];
        if a & A_ITER_MUT_BACK != 0 && back_offered {
            dirs.push(true);
        }
        let mut endings = vec![End::Drop];
        if a & A_ITER_MUT_FORGET != 0 {
            endings.push(End::Forget);
        }
        for &end in &endings {
            for via_ref in [false, true] {
                // consume j elements without writing (j = n+1 runs past the end)
                for j in [0, n, n + 1] {
                    let steps = vec![ImStep { back: false, prio: None, payload: None, skip: 0 }; j];
                    out.push(Op::IterMut { steps, end, via_ref });
                }
                if via_ref {
                    continue;
                }
                for &back in &dirs {
                    // skip j elements, then write one priority
                    for j in 0..n {
                        for &p in &cfg.prios {
                            let mut steps = vec![ImStep { back, prio: None, payload: None, skip: 0 }; j];
                            steps.push(ImStep { back, prio: Some(p), payload: None, skip: 0 });
                            out.push(Op::IterMut { steps, end, via_ref });
                        }
                        if payload_mode {
                            let mut steps = vec![ImStep { back, prio: None, payload: None, skip: 0 }; j];
                            steps.push(ImStep { back, prio: None, payload: Some(PAYLOAD_B), skip: 0 });
                            out.push(Op::IterMut { steps, end, via_ref });
                        }
                    }
                }
                if n >= 2 && !cfg.lean {
                    // nth / nth_back: one call of next (writing), then nth(k) writing; and nth(k) first
                    let lo = *cfg.prios.iter().min().unwrap();
                    let hi = *cfg.prios.iter().max().unwrap();
                    let pl = if payload_mode { Some(PAYLOAD_B) } else { None };
                    for &back in &dirs {
                        for k in 0..n.min(4) {
                            for (p1, p2) in [(lo, hi), (hi, lo)] {
                                out.push(Op::IterMut { steps: vec![ImStep { back, prio: Some(p1), payload: pl, skip: 0 }, ImStep { back, prio: Some(p2), payload: pl, skip: k as u32 + 1 }], end, via_ref });
                                out.push(Op::IterMut { steps: vec![ImStep { back, prio: Some(p1), payload: pl, skip: k as u32 + 1 }, ImStep { back, prio: Some(p2), payload: pl, skip: 0 }, ImStep { back: false, prio: None, payload: None, skip: 1 }], end, via_ref });
                            }
                        }
                    }
                }
                if n > 3 {
                    // two writes (lowest / highest priority) at every pair of positions: a re-sift
                    // of one element at a time is only sound for a single misplaced element
                    let lo = *cfg.prios.iter().min().unwrap();
                    let hi = *cfg.prios.iter().max().unwrap();
                    for i in 0..n {
                        for j in (i + 1)..n {
                            for (p1, p2) in [(lo, lo), (lo, hi), (hi, lo), (hi, hi)] {
                                let mut steps = vec![ImStep { back: false, prio: None, payload: None, skip: 0 }; j + 1];
                                steps[i].prio = Some(p1);
                                steps[j].prio = Some(p2);
                                out.push(Op::IterMut { steps, end, via_ref });
                            }
                        }
                    }
                }
                if dirs.len() > 1 && n >= 2 {
                    // alternate the two ends over the whole queue, writing at the last step
                    for &p in &cfg.prios {
                        let mut steps: Vec<ImStep> = (0..n).map(|i| ImStep { back: i % 2 == 1, prio: None, payload: None, skip: 0 }).collect();
                        steps.last_mut().unwrap().prio = Some(p);
                        steps.push(ImStep { back: false, prio: None, payload: None, skip: 0 });
                        steps.push(ImStep { back: true, prio: None, payload: None, skip: 0 });
                        out.push(Op::IterMut { steps, end, via_ref });
                    }
                }
            }
        }
    }
    if a & A_EXTEND != 0 && cfg.k > 6 {
        // deep receivers: a structured family, each with a hint below and above the
        // push-versus-rebuild threshold (rebuild needs an upper bound >= 17 on a receiver >= 8)
        let lo = *cfg.prios.iter().min().unwrap();
        let hi = *cfg.prios.iter().max().unwrap();
        let mut seqs: Vec<Vec<Pair>> = vec![];
        let mut keys: Vec<u32> = vec![];
        if let (Some(&f), Some(&l)) = (present.first(), present.last()) {
            keys.extend([f, present[present.len() / 2], l]);
        }
        keys.push(cfg.k - 1);
        keys.dedup();
        for &k in &keys {
            for p in [lo, hi] {
                seqs.push(vec![(k, 100, p)]);
            }
            seqs.push(vec![(k, 100, hi), (k, 101, lo)]);
        }
        // every stored item rewritten (mirrored priorities): nothing new, the order changes
        seqs.push(present.iter().map(|&k| (k, 100, (lo as i64 + hi as i64 - m[&k].1 as i64) as i32)).collect());
        // every stored item rewritten, then new items
        let mut s2: Vec<Pair> = present.iter().map(|&k| (k, 100, if k % 2 == 0 { hi } else { lo })).collect();
        s2.push((cfg.k - 1, 100, hi));
        seqs.push(s2);
        // long batches naming the same items several times with different priorities (the last decides)
        for len in if cfg.lean { vec![] } else { vec![24u32, 48] } {
            seqs.push((0..len).map(|i| (cfg.k - 1 + (i % 8), 100, cfg.prios[(i as usize * 7 + 1) % cfg.prios.len()])).collect());
            if n > 0 {
                seqs.push((0..len as usize).map(|i| (present[(i * 3) % n.min(5)], 100, cfg.prios[(i * 5 + 2) % cfg.prios.len()])).collect());
                seqs.push((0..len as usize).map(|i| if i % 3 == 0 { (present[(i / 3) % n.min(4)], 100, cfg.prios[(i * 5 + 2) % cfg.prios.len()]) } else { (cfg.k - 1 + i as u32, 100, cfg.prios[i % cfg.prios.len()]) }).collect());
            }
        }
        for s in seqs {
            let l = s.len();
            out.push(Op::Extend(s.clone(), Hint { lo: l, hi: Some(l) }));
            out.push(Op::Extend(s.clone(), Hint { lo: 0, hi: Some(l.max(17)) }));
            out.push(Op::Extend(s, Hint { lo: 0, hi: None }));
        }
    } else if a & A_EXTEND != 0 {
        let mut hints = vec![None, Some(Hint { lo: 0, hi: None })];
        if a & A_EXTEND_HUGE_HINT != 0 {
            hints.push(Some(Hint { lo: 0, hi: Some(usize::MAX) }));
            hints.push(Some(Hint { lo: 0, hi: Some(usize::MAX / 2) }));
        }
        let mut seqs: Vec<Vec<Pair>> = vec![vec![]];
        for k in 0..cfg.k {
            for &p in &cfg.prios {
                seqs.push(vec![(k, ins_payload(k), p)]);
                for &p2 in &cfg.prios {
                    if p2 != p {
                        // the same item twice: the last priority must win
                        seqs.push(vec![(k, ins_payload(k), p), (k, PAYLOAD_B * payload_mode as u8, p2)]);
                    }
                }
            }
        }
        for s in seqs {
            for h in &hints {
                let h = h.unwrap_or(Hint { lo: s.len(), hi: Some(s.len()) });
                out.push(Op::Extend(s.clone(), h));
            }
        }
    }
    if a & A_APPEND != 0 && cfg.k > 6 {
        // deep receivers: a structured family of appended queues
        let lo = *cfg.prios.iter().min().unwrap();
        let hi = *cfg.prios.iter().max().unwrap();
        let absent = cfg.k - 1;
        let mut keys: Vec<u32> = vec![];
        if let (Some(&f), Some(&l)) = (present.first(), present.last()) {
            keys.extend([f, present[present.len() / 2], l]);
        }
        keys.push(absent);
        keys.dedup();
        out.push(Op::Append(vec![]));
        for &k in &keys {
            for p in [lo, hi] {
                out.push(Op::Append(vec![(k, ins_payload(k), p)]));
                if cfg.append_max >= 2 && k != absent {
                    out.push(Op::Append(vec![(k, ins_payload(k), p), (absent, ins_payload(absent), hi)]));
                    out.push(Op::Append(vec![(absent, ins_payload(absent), lo), (k, ins_payload(k), p)]));
                }
            }
        }
        if cfg.append_max >= 2 {
            // a longer queue that clashes with every stored item (the receiver is swapped)
            for p in [lo, hi] {
                let mut big: Vec<Pair> = present.iter().map(|&k| (k, ins_payload(k), p)).collect();
                big.push((absent, ins_payload(absent), p));
                big.push((absent + 1, 0, lo));
                big.push((absent + 2, 0, hi));
                out.push(Op::Append(big));
            }
            // half as long, disjoint
            out.push(Op::Append((0..(n as u32 / 2).max(1)).map(|i| (absent + 1 + i, 0, if i % 2 == 0 { lo } else { hi })).collect()));
            // several moved elements with GRADED priorities beyond both ends of the receiver (each new
            // one more extreme than the last, each less extreme, zigzag): a sift of one moved element
            // that looks at not yet sifted ones only goes wrong for such relations
            for m in [2u32, 3, 4, (n as u32 / 2).max(2)] {
                let below = |i: u32| lo.saturating_sub(1 + i as i32);
                let above = |i: u32| hi.saturating_add(1 + i as i32);
                out.push(Op::Append((0..m).map(|i| (absent + 1 + i, 0, below(i))).collect()));
                out.push(Op::Append((0..m).map(|i| (absent + 1 + i, 0, below(m - 1 - i))).collect()));
                out.push(Op::Append((0..m).map(|i| (absent + 1 + i, 0, above(i))).collect()));
                out.push(Op::Append((0..m).map(|i| (absent + 1 + i, 0, above(m - 1 - i))).collect()));
                out.push(Op::Append((0..m).map(|i| (absent + 1 + i, 0, if i % 2 == 0 { below(i) } else { above(i) })).collect()));
                out.push(Op::Append((0..m).map(|i| (absent + 1 + i, 0, if i % 2 == 1 { below(m - i) } else { above(m - i) })).collect()));
            }
        }
    } else if a & A_APPEND != 0 {
        out.push(Op::Append(vec![]));
        for k in 0..cfg.k {
            for &p in &cfg.prios {
                out.push(Op::Append(vec![(k, ins_payload(k), p)]));
                if cfg.append_max >= 2 {
                    for k2 in 0..cfg.k {
                        if k2 == k {
                            continue;
                        }
                        for &p2 in &cfg.prios {
                            out.push(Op::Append(vec![(k, ins_payload(k), p), (k2, ins_payload(k2), p2)]));
                            if cfg.append_max >= 3 {
                                for k3 in 0..cfg.k {
                                    if k3 == k || k3 == k2 {
                                        continue;
                                    }
                                    for &p3 in &cfg.prios {
                                        out.push(Op::Append(vec![(k, ins_payload(k), p), (k2, ins_payload(k2), p2), (k3, ins_payload(k3), p3)]));
                                    }
                                }
                            }
                        }
                    }
                }
            }
        }
    }
    if a & A_CLEAR_DRAIN != 0 {
        out.push(Op::Clear);
        let mut endings = vec![End::Drop];
        if a & A_DRAIN_FORGET != 0 {
            endings.push(End::Forget);
        }
        for &end in &endings {
            for f in 0..=(n + 1) {
                for b in 0..=(n + 1 - f) {
                    out.push(Op::Drain { front: f as u32, back: b as u32, end });
                }
            }
        }
    }
    if a & A_CLONE != 0 {
        out.push(Op::CloneSwap);
        // clone_from an empty, a one-element and a full-universe queue (longer or equal), and a
        // differently arranged one; all within the item universe, so the state space stays closed
        if cfg.k <= 6 {
            let p0 = cfg.prios[0];
            let p1 = *cfg.prios.last().unwrap();
            out.push(Op::CloneFrom(vec![]));
            out.push(Op::CloneFrom(vec![(0, 0, p1)]));
            out.push(Op::CloneFrom((0..cfg.k).map(|i| (i, 0, if i % 2 == 0 { p0 } else { p1 })).collect()));
            out.push(Op::CloneFrom((0..cfg.k).rev().map(|i| (i, 0, if i % 2 == 0 { p1 } else { p0 })).collect()));
        }
    }
    if a & A_CAPACITY != 0 {
        let mut amounts: Vec<usize> = vec![0, 1, 2, 5, 100];
        if a & A_CAPACITY_HUGE != 0 {
            amounts.extend([1usize << 60, usize::MAX / 2, usize::MAX - 1, usize::MAX]);
        }
        for &x in &amounts {
            out.push(Op::Reserve(x));
            out.push(Op::ReserveExact(x));
            out.push(Op::TryReserve(x));
            out.push(Op::TryReserveExact(x));
        }
        out.push(Op::ShrinkToFit);
    }
    if a & A_CONVERT != 0 {
        out.push(Op::Convert);
    }
    gen_consume(a, n, out);
}

/// Structural target positions of a heap of n elements.
pub fn target_positions(n: usize) -> Vec<usize> {
    if n == 0 {
        return vec![];
    }
    let mut t: Vec<usize> = vec![0, 1, 2, n - 1, n.saturating_sub(2), n.saturating_sub(3), n / 2, (n / 2).saturating_sub(1), n / 4, (3 * n) / 4];
    let mut l = 0;
    while (1usize << l) - 1 < n {
        t.push((1usize << l) - 1);
        t.push(((1usize << (l + 1)) - 2).min(n - 1));
        // parent of the last node and its sibling subtree on every level
        l += 1;
    }
    // the path from the last node to the root (the one a pop refills along)
    let mut i = n - 1;
    while i > 0 {
        i = (i - 1) / 2;
        t.push(i);
    }
    t.retain(|&x| x < n);
    t.sort();
    t.dedup();
    t
}

/// The alphabet for LARGE queues (`cfg.large`): the same operations as `gen_ops`, addressed at the
/// items sitting at the structural target positions of the heap right now (and at the first,
/// middle and last map slot, and one absent item), with every priority of `cfg.prios`.
pub fn gen_ops_large(cfg: &Cfg, double: bool, m: &Model, snap: &Snap, back_offered: bool, out: &mut Vec<Op>) {
    let a = cfg.alphabet;
    let n = m.len();
    let present: Vec<u32> = m.keys().copied().collect();
    let mut tkeys: Vec<u32> = vec![];
    let mut tslots: Vec<usize> = vec![];
    if n > 0 && snap.heap.len() == n && snap.slots.len() == n {
        for t in target_positions(n) {
            let slot = snap.heap[t];
            if slot < n {
                tkeys.push(snap.slots[slot].0);
                tslots.push(slot);
            }
        }
        for slot in [0, n / 2, n - 1] {
            tkeys.push(snap.slots[slot].0);
            tslots.push(slot);
        }
    }
    let absent = cfg.k - 1;
    let mut keys = tkeys.clone();
    keys.push(absent);
    let mut seen = HashSet::new();
    keys.retain(|k| seen.insert(*k));
    tslots.sort();
    tslots.dedup();
    let borrowed: &[bool] = if a & A_BORROWED != 0 { &[false, true] } else { &[false] };
    for &k in &keys {
        for &p in &cfg.prios {
            if a & A_PUSH != 0 {
                out.push(Op::Push(k, 0, p));
            }
            if a & A_PUSH_INCDEC != 0 {
                out.push(Op::PushInc(k, 0, p));
                out.push(Op::PushDec(k, 0, p));
            }
            for &b in borrowed {
                if a & A_CHANGE != 0 {
                    out.push(Op::Change(k, p, b));
                }
                if a & A_CHANGE_BY != 0 {
                    out.push(Op::ChangeBy(k, p, b));
                }
            }
        }
        for &b in borrowed {
            if a & A_REMOVE != 0 {
                out.push(Op::Remove(k, b));
            }
        }
    }
    let ends: &[bool] = if double { &[true, false] } else { &[true] };
    if a & A_POP != 0 {
        out.push(Op::PopHi);
        if double {
            out.push(Op::PopLo);
        }
    }
    if a & A_PEEK_MUT != 0 {
        for &hi in ends {
            out.push(Op::PeekMut { hi, payload: 0 });
        }
    }
    if a & A_POP_IF != 0 {
        for &hi in ends {
            for ret in [true, false] {
                out.push(Op::PopIf { hi, ret, write: None });
                for &p in &cfg.prios {
                    out.push(Op::PopIf { hi, ret, write: Some(p) });
                }
            }
        }
    }
    // keep-masks: none, all, each target alone, all but each target, evens, odds, halves, quarters
    let mut masks: Vec<Vec<u32>> = vec![vec![], present.clone()];
    for &k in &tkeys {
        masks.push(vec![k]);
        masks.push(present.iter().copied().filter(|&x| x != k).collect());
    }
    masks.push(present.iter().copied().step_by(2).collect());
    masks.push(present.iter().copied().skip(1).step_by(2).collect());
    masks.push(present[n / 2..].to_vec());
    masks.push(present[..n / 2].to_vec());
    masks.push(present[..n / 4].to_vec());
    masks.push(present[n - n / 4..].to_vec());
    // the elements of the upper levels / of the last level of the heap
    if snap.heap.len() == n && n > 0 {
        let upper: Vec<u32> = snap.heap[..n / 2].iter().filter(|&&s| s < snap.slots.len()).map(|&s| snap.slots[s].0).collect();
        let lower: Vec<u32> = snap.heap[n / 2..].iter().filter(|&&s| s < snap.slots.len()).map(|&s| snap.slots[s].0).collect();
        masks.push(upper);
        masks.push(lower);
    }
    masks.sort();
    masks.dedup();
    let lo = *cfg.prios.iter().min().unwrap();
    let hi = *cfg.prios.iter().max().unwrap();
    let mirror = |k: u32| -> i32 { (lo as i64 + hi as i64 - m[&k].1 as i64) as i32 };
    if a & A_RETAIN != 0 {
        for d in &masks {
            out.push(Op::Retain(d.clone()));
        }
    }
    if a & A_RETAIN_MUT != 0 {
        let rewrites: Vec<Vec<(u32, i32)>> = vec![vec![], present.iter().map(|&k| (k, mirror(k))).collect(), present.iter().map(|&k| (k, if k % 2 == 0 { lo } else { hi })).collect()];
        for d in &masks {
            for rw in &rewrites {
                out.push(Op::RetainMut(d.clone(), rw.clone()));
            }
        }
    }
    if a & A_ITER_MUT != 0 && n > 0 {
        out.push(Op::IterMutForEach { writes: vec![], pre: vec![], rev: false });
        for &p in &[lo, hi] {
            out.push(Op::IterMutForEach { writes: vec![Some(p); n], pre: vec![], rev: false });
        }
        out.push(Op::IterMutForEach { writes: (0..n).map(|i| Some(if i % 2 == 0 { hi } else { lo })).collect(), pre: vec![], rev: false });
        out.push(Op::IterMutForEach { writes: snap.slots.iter().map(|s| Some(mirror(s.0))).collect(), pre: vec![], rev: false });
        for &j in &tslots {
            for &p in &cfg.prios {
                let mut w = vec![None; j + 1];
                w[j] = Some(p);
                out.push(Op::IterMutForEach { writes: w, pre: vec![], rev: false });
                out.push(Op::IterMutFind { stop_at: j as u32, prio: p });
            }
        }
        let mut dirs: Vec<bool> = vec![false];
        if a & A_ITER_MUT_BACK != 0 && back_offered {
            dirs.push(true);
        }
        let mut endings = vec![End::Drop];
        if a & A_ITER_MUT_FORGET != 0 {
            endings.push(End::Forget);
        }
        for &end in &endings {
            for via_ref in [false, true] {
                for j in [0, 1, n, n + 1] {
                    out.push(Op::IterMut { steps: vec![ImStep { back: false, prio: None, payload: None, skip: 0 }; j], end, via_ref });
                }
                if via_ref {
                    continue;
                }
                for &back in &dirs {
                    for &j in &tslots {
                        // the element in map slot j is the j-th from the front, the (n-1-j)-th from the back
                        let skip = if back { n - 1 - j } else { j };
                        for &p in &cfg.prios {
                            let mut steps = vec![ImStep { back, prio: None, payload: None, skip: 0 }; skip];
                            steps.push(ImStep { back, prio: Some(p), payload: None, skip: 0 });
                            out.push(Op::IterMut { steps, end, via_ref });
                        }
                    }
                }
                // two writes at every pair of target slots
                for (x, &i) in tslots.iter().enumerate() {
                    for &j in &tslots[x + 1..] {
                        for (p1, p2) in [(lo, lo), (lo, hi), (hi, lo), (hi, hi)] {
                            let mut steps = vec![ImStep { back: false, prio: None, payload: None, skip: 0 }; j + 1];
                            steps[i].prio = Some(p1);
                            steps[j].prio = Some(p2);
                            out.push(Op::IterMut { steps, end, via_ref });
                        }
                    }
                }
                if dirs.len() > 1 && n >= 2 {
                    for &p in &[lo, hi] {
                        let mut steps: Vec<ImStep> = (0..n).map(|i| ImStep { back: i % 2 == 1, prio: None, payload: None, skip: 0 }).collect();
                        steps.last_mut().unwrap().prio = Some(p);
                        steps.push(ImStep { back: false, prio: None, payload: None, skip: 0 });
                        steps.push(ImStep { back: true, prio: None, payload: None, skip: 0 });
                        out.push(Op::IterMut { steps, end, via_ref });
                    }
                }
            }
        }
    }
    if a & A_EXTEND != 0 {
        let mut seqs: Vec<Vec<Pair>> = vec![vec![]];
        for &k in keys.iter().take(6).chain([absent].iter()) {
            for p in [lo, hi] {
                seqs.push(vec![(k, 100, p)]);
            }
            seqs.push(vec![(k, 100, hi), (k, 101, lo)]);
        }
        seqs.push(present.iter().map(|&k| (k, 100, mirror(k))).collect());
        let mut s2: Vec<Pair> = present.iter().map(|&k| (k, 100, if k % 2 == 0 { hi } else { lo })).collect();
        s2.push((absent, 100, hi));
        seqs.push(s2);
        // many new items (more than the receiver holds), interleaved with rewrites of stored ones
        let mut s3: Vec<Pair> = vec![];
        for i in 0..(n as u32 + 3) {
            s3.push((absent + i, 100, cfg.prios[i as usize % cfg.prios.len()]));
            if let Some(&k) = present.get(i as usize) {
                if i % 3 == 0 {
                    s3.push((k, 100, mirror(k)));
                }
            }
        }
        seqs.push(s3);
        // long batches that name the same items several times with different priorities (the last
        // one decides): new items only, and stored items only
        // (30, 48 and 100 pairs: library sorts and merges change strategy with the length)
        for len in [30u32, 48, 100] {
            seqs.push((0..len).map(|i| (absent + (i % 10), 100, cfg.prios[(i as usize * 7 + 1) % cfg.prios.len()])).collect());
            if n > 0 {
                seqs.push((0..len as usize).map(|i| (present[(i * 3) % n.min(7)], 100, cfg.prios[(i * 5 + 2) % cfg.prios.len()])).collect());
                // mostly new items, a few stored ones updated several times
                seqs.push((0..len as usize).map(|i| if i % 3 == 0 { (present[(i / 3) % n.min(4)], 100, cfg.prios[(i * 5 + 2) % cfg.prios.len()]) } else { (absent + i as u32, 100, cfg.prios[i % cfg.prios.len()]) }).collect());
            }
        }
        seqs.sort();
        seqs.dedup();
        for s in seqs {
            let l = s.len();
            out.push(Op::Extend(s.clone(), Hint { lo: l, hi: Some(l) }));
            // an upper bound far enough above to choose the rebuild strategy on any receiver >= 8
            out.push(Op::Extend(s.clone(), Hint { lo: 0, hi: Some(l.max(4 * n + 17)) }));
            out.push(Op::Extend(s, Hint { lo: 0, hi: None }));
        }
    }
    if a & A_APPEND != 0 {
        out.push(Op::Append(vec![]));
        for &k in keys.iter().take(6).chain([absent].iter()) {
            for p in [lo, hi] {
                out.push(Op::Append(vec![(k, 0, p)]));
                if k != absent {
                    out.push(Op::Append(vec![(k, 0, p), (absent, 0, hi)]));
                    out.push(Op::Append(vec![(absent, 0, lo), (k, 0, p)]));
                }
            }
        }
        for p in [lo, hi] {
            // longer and clashing with every stored item (the two stores are swapped)
            let mut big: Vec<Pair> = present.iter().map(|&k| (k, 0, p)).collect();
            big.push((absent, 0, p));
            big.push((absent + 1, 0, lo));
            big.push((absent + 2, 0, hi));
            out.push(Op::Append(big));
        }
        // half as long / equally long / one longer, disjoint
        for len in [(n as u32 / 2).max(1), n as u32, n as u32 + 1] {
            out.push(Op::Append((0..len).map(|i| (absent + 1 + i, 0, cfg.prios[i as usize % cfg.prios.len()])).collect()));
        }
        // half as long, clashing with every other stored item
        out.push(Op::Append(present.iter().step_by(2).map(|&k| (k, 0, mirror(k))).collect()));
        // several moved elements with graded priorities beyond both ends of the receiver
        for m in [2u32, 3, 4, 9, (n as u32 / 2).max(2)] {
            let below = |i: u32| lo.saturating_sub(1 + i as i32);
            let above = |i: u32| hi.saturating_add(1 + i as i32);
            out.push(Op::Append((0..m).map(|i| (absent + 1 + i, 0, below(i))).collect()));
            out.push(Op::Append((0..m).map(|i| (absent + 1 + i, 0, below(m - 1 - i))).collect()));
            out.push(Op::Append((0..m).map(|i| (absent + 1 + i, 0, above(i))).collect()));
            out.push(Op::Append((0..m).map(|i| (absent + 1 + i, 0, above(m - 1 - i))).collect()));
            out.push(Op::Append((0..m).map(|i| (absent + 1 + i, 0, if i % 2 == 0 { below(i) } else { above(i) })).collect()));
        }
    }
    if a & A_CLEAR_DRAIN != 0 {
        out.push(Op::Clear);
        let mut endings = vec![End::Drop];
        if a & A_DRAIN_FORGET != 0 {
            endings.push(End::Forget);
        }
        let n32 = n as u32;
        for &end in &endings {
            for (f, b) in [(0, 0), (1, 0), (0, 1), (1, 1), (n32, 0), (0, n32), (n32 / 2, n32 - n32 / 2), (n32 / 2, n32 / 2 + 2), (n32 + 1, 0), (0, n32 + 1), (2, 3)] {
                out.push(Op::Drain { front: f, back: b, end });
            }
        }
    }
    if a & A_CLONE != 0 {
        out.push(Op::CloneSwap);
    }
    if a & A_CAPACITY != 0 {
        for &x in &[0usize, 1, 5, 1000] {
            out.push(Op::Reserve(x));
            out.push(Op::ReserveExact(x));
            out.push(Op::TryReserve(x));
            out.push(Op::TryReserveExact(x));
        }
        out.push(Op::ShrinkToFit);
    }
    if a & A_CONVERT != 0 {
        out.push(Op::Convert);
    }
    gen_consume(a, n, out);
}

/// `gen_ops`, or its large-queue variant when `cfg.large` and the tables are available.
pub fn gen_ops_for(cfg: &Cfg, double: bool, m: &Model, snap: &Snap, back_offered: bool, out: &mut Vec<Op>) {
    if cfg.large {
        gen_ops_large(cfg, double, m, snap, back_offered, out)
    } else {
        gen_ops(cfg, double, m, back_offered, out)
    }
}

fn gen_consume(a: u32, n: usize, out: &mut Vec<Op>) {
    if a & A_CONSUME != 0 {
        let n32 = n as u32;
        for (f, b) in [(0, 0), (1, 1), (0, n32), (n32 / 2, 1), (2, 0)] {
            out.push(Op::Consume { how: 0, front: f, back: b });
        }
        for how in 1..=5u8 {
            out.push(Op::Consume { how, front: 0, back: 0 });
        }
    }
}

pub fn op_name(op: &Op) -> &'static str {
    match op {
        Op::Push(..) => "push",
        Op::PushInc(..) => "push_increase",
        Op::PushDec(..) => "push_decrease",
        Op::Change(..) => "change_priority",
        Op::ChangeBy(..) => "change_priority_by",
        Op::Remove(..) => "remove",
        Op::PopHi => "pop_hi",
        Op::PopLo => "pop_min",
        Op::PopIf { hi: true, .. } => "pop_hi_if",
        Op::PopIf { hi: false, .. } => "pop_min_if",
        Op::Retain(..) => "retain",
        Op::RetainMut(..) => "retain_mut",
        Op::IterMut { .. } => "iter_mut",
        Op::IterMutForEach { .. } => "iter_mut",
        Op::IterMutFind { .. } => "iter_mut",
        Op::CloneFrom(..) => "clone_from",
        Op::Extend(..) => "extend",
        Op::Append(..) => "append",
        Op::Clear => "clear",
        Op::Drain { .. } => "drain",
        Op::CloneSwap => "clone",
        Op::Reserve(..) => "reserve",
        Op::ReserveExact(..) => "reserve_exact",
        Op::TryReserve(..) => "try_reserve",
        Op::TryReserveExact(..) => "try_reserve_exact",
        Op::ShrinkToFit => "shrink_to_fit",
        Op::GetMut(..) => "get_mut",
        Op::PeekMut { .. } => "peek_mut",
        Op::Convert => "convert",
        Op::Consume { how: 0, .. } => "into_sorted_iter",
        Op::Consume { how: 1, .. } | Op::Consume { how: 2, .. } => "into_sorted_vec",
        Op::Consume { how: 3, .. } => "into_iter",
        Op::Consume { how: 4, .. } => "into_vec",
        Op::Consume { .. } => "convert-and-drain",
    }
}

pub struct Applied<H: HB> {
    pub q: AnyQ<H>,
    pub unordered: bool,
    pub ret: Ret,
    pub snap: Snap,
    pub model: Model,
    pub cmps: u64,
}


/// Roomy twin: every transition is executed a second time on a copy that first got spare capacity
/// (`reserve(64)`), and must return the same value and reach the same tables. Every explored state is
/// a fresh clone with tightly sized vectors, so without this no operation ever runs on a queue whose
/// tables have room to spare. Switched off only where a layer measures costs or injects faults.
pub static ROOMY_TWIN: AtomicBool = AtomicBool::new(true);
/// The third execution with a large reservation: on (default, replays, closed small-scope runs) or
/// off (seeded depth-bounded runs, whose many small post-states would pay a 4 MB reservation each).
pub static LARGE_TWIN: AtomicBool = AtomicBool::new(true);

/// One transition on a clone of `q`, fully checked: return value legality, contents, tables, order.
pub fn apply<H: HB>(q: &AnyQ<H>, unordered: bool, m: &Model, op: &Op, universe: &[u32]) -> Result<Applied<H>, String> {
    let mut un = unordered;
    let mut mm = m.clone();
    let res = catch_unwind(AssertUnwindSafe(|| {
        let mut c = q.clone();
        mark_cmp();
        if let Op::Convert = op {
            let c2 = c.convert();
            let cm = cmps_since_mark();
            return Ok((c2, Ret::Unit, cm));
        }
        let r = with_q!(&mut c, x => step(x, op, &mut mm, &mut un));
        let cm = cmps_since_mark();
        r.map(|r| (c, r, cm))
    }));
    let (c, ret, cmps) = match res {
        Ok(Ok(x)) => x,
        Ok(Err(e)) => return Err(e),
        Err(e) => return Err(format!("{} panicked: {}", op_name(op), panic_text(&e))),
    };
    if let Op::Convert = op {
        un = false; // conversion is specified to give a correctly ordered queue
    }
    if let Op::IterMut { end: End::Drop, .. } | Op::IterMutForEach { .. } | Op::IterMutFind { .. } = op {
        un = false; // documented: the heap is rebuilt when the iterator goes out of scope
    }
    if mm.len() <= 1 {
        un = false;
    }
    let snap = c.snap();
    if let Op::CloneSwap = op {
        // a clone must have the arrangement of its source (it "behaves identically", ties included)
        let before = q.snap();
        if snap != before {
            return Err(format!("a clone has a different internal arrangement than its source: {snap:?} vs {before:?}"));
        }
    }
    let chk = catch_unwind(AssertUnwindSafe(|| with_q!(&c, x => check_state(x, &snap, &mm, un, universe))));
    match chk {
        Ok(Ok(())) => {}
        Ok(Err(e)) => return Err(format!("after {}: {e}", op_name(op))),
        Err(e) => return Err(format!("observing the queue after {} panicked: {}", op_name(op), panic_text(&e))),
    }
    if ROOMY_TWIN.load(AO::Relaxed) && !matches!(op, Op::Convert | Op::CloneSwap | Op::Reserve(_) | Op::ReserveExact(_) | Op::TryReserve(_) | Op::TryReserveExact(_) | Op::ShrinkToFit) {
        let mut un2 = unordered;
        let mut m2 = m.clone();
        let res = catch_unwind(AssertUnwindSafe(|| {
            let mut t = q.clone();
            with_q!(&mut t, x => x.q_reserve(64));
            let r = with_q!(&mut t, x => step(x, op, &mut m2, &mut un2));
            r.map(|r| (r, t.snap()))
        }));
        match res {
            Ok(Ok((r2, s2))) => {
                if r2 != ret || s2 != snap {
                    return Err(format!("{} behaves differently on a queue with spare capacity (reserve(64) first): returns {r2:?} and leaves {s2:?}; on the tightly sized queue it returns {ret:?} and leaves {snap:?}", op_name(op)));
                }
            }
            Ok(Err(e)) => return Err(format!("on a queue with spare capacity (reserve(64) first): {e}")),
            Err(e) => return Err(format!("{} on a queue with spare capacity (reserve(64) first) panicked: {}", op_name(op), panic_text(&e))),
        }
    }
    // a second twin with a LARGE reservation for the operations where a policy keyed on the capacity
    // ("release oversized tables", "cheap path when the table is sparse") is plausible; on small
    // queues only, where the allocation dominates the cost
    if ROOMY_TWIN.load(AO::Relaxed) && LARGE_TWIN.load(AO::Relaxed) && m.len() <= 4 && matches!(op, Op::Clear | Op::Drain { .. } | Op::Retain(_) | Op::RetainMut(..) | Op::Append(_) | Op::CloneFrom(_)) {
        let mut un2 = unordered;
        let mut m2 = m.clone();
        let res = catch_unwind(AssertUnwindSafe(|| {
            let mut t = q.clone();
            with_q!(&mut t, x => x.q_reserve(70_000));
            let r = with_q!(&mut t, x => step(x, op, &mut m2, &mut un2));
            r.map(|r| (r, t.snap()))
        }));
        match res {
            Ok(Ok((r2, s2))) => {
                if r2 != ret || s2 != snap {
                    return Err(format!("{} behaves differently on a queue with a large reservation (reserve(70000) first): returns {r2:?} and leaves {s2:?}; on the tightly sized queue it returns {ret:?} and leaves {snap:?}", op_name(op)));
                }
            }
            Ok(Err(e)) => return Err(format!("on a queue with a large reservation (reserve(70000) first): {e}")),
            Err(e) => return Err(format!("{} on a queue with a large reservation (reserve(70000) first) panicked: {}", op_name(op), panic_text(&e))),
        }
    }
    Ok(Applied { q: c, unordered: un, ret, snap, model: mm, cmps })
}

// ---------------------------------------------------------------------------------------------

pub struct PathNode {
    pub parent: Option<Arc<PathNode>>,
    pub op: Op,
}

pub struct Node<H: HB> {
    pub q: AnyQ<H>,
    pub unordered: bool,
    pub root: Arc<(bool, Root)>,
    pub path: Option<Arc<PathNode>>,
}

impl<H: HB> Node<H> {
    pub fn dup(&self) -> Node<H> {
        Node { q: self.q.clone(), unordered: self.unordered, root: self.root.clone(), path: self.path.clone() }
    }
    pub fn ops(&self) -> Vec<Op> {
        let mut v = vec![];
        let mut p = self.path.clone();
        while let Some(n) = p {
            v.push(n.op.clone());
            p = n.parent.clone();
        }
        v.reverse();
        v
    }
}

#[derive(Clone, Debug, Serialize, Deserialize)]
pub struct Case {
    pub prop: String,
    pub hasher: String,
    pub double: bool,
    pub root: Root,
    pub ops: Vec<Op>,
    /// the operation (or probe) that failed, after `ops`
    pub last: Option<Op>,
    pub probe: Option<String>,
    pub detail: String,
    pub universe: Vec<u32>,
    /// a second state taking part in the case (append / equality pairs)
    #[serde(default)]
    pub aux: Option<(bool, Root, Vec<Op>)>,
    /// E3: transitions after `ops`, each optionally with a panic injected at (callback class, index)
    #[serde(default)]
    pub trail: Vec<(Op, Option<(usize, u64)>)>,
    /// free parameters of non-history cases (cost grid: n, pattern, kind)
    #[serde(default)]
    pub params: Vec<u64>,
}

impl Case {
    pub fn signature(&self) -> String {
        let what = match (&self.probe, &self.last) {
            (Some(p), _) if p == "fault-trail" => {
                let (op, f) = self.trail.last().cloned().unwrap_or((Op::Clear, None));
                let first = self.trail.iter().find(|x| x.1.is_some()).map(|x| format!("{}@{}", op_name(&x.0), CLASS_NAMES[x.1.unwrap().0])).unwrap_or_default();
                format!("fault-trail[{first}..{}{}]", op_name(&op), f.map(|f| format!("@{}", CLASS_NAMES[f.0])).unwrap_or_default())
            }
            (Some(p), _) => p.clone(),
            (None, Some(op)) => op_name(op).to_string(),
            _ => "constructor".into(),
        };
        let kind = if self.double { "DoublePriorityQueue" } else { "PriorityQueue" };
        let mut cls: String = self.detail.chars().filter(|c| !c.is_ascii_digit()).collect();
        cls.truncate(70);
        format!("{}|{}|{}|{}", self.prop, kind, what, cls)
    }
}

#[derive(Default)]
pub struct Stats {
    pub states: AtomicU64,
    pub transitions: AtomicU64,
    pub probe_cases: AtomicU64,
    pub roots: AtomicU64,
    pub levels: AtomicU64,
    pub merge_checked: AtomicU64,
    pub documented_panics: AtomicU64,
    pub capped: AtomicBool,
    pub outcomes: Mutex<HashSet<u64>>,
    /// (op name, double, n) -> max comparisons
    pub costs: Mutex<BTreeMap<(String, bool, usize), u64>>,
    pub op_counts: Mutex<BTreeMap<String, u64>>,
    pub samples: Mutex<Vec<String>>,
    pub max_depth: AtomicU64,
    pub max_len: AtomicU64,
    /// order-independent fingerprint of the labelled transition graph (key, op, return, successor key)
    pub graph_fp: AtomicU64,
    /// merge-soundness mismatches (machinery-level nondeterminism, never a verdict)
    pub merge_mismatch: Mutex<Vec<String>>,
}

pub trait Probe<H: HB>: Sync + Send {
    fn name(&self) -> String;
    /// Called exactly once per unique state. Returns the number of cases it ran.
    fn on_state(&self, q: &AnyQ<H>, m: &Model, unordered: bool) -> Result<u64, String>;
}

fn hash64<T: std::hash::Hash>(t: &T) -> u64 {
    use std::hash::Hasher;
    let mut h = std::collections::hash_map::DefaultHasher::new();
    t.hash(&mut h);
    h.finish()
}

pub fn all_vectors(k: u32, prios: &[i32], payload: u8, max_len: usize) -> Vec<Vec<Pair>> {
    let mut pairs = vec![];
    for key in 0..k {
        for &p in prios {
            pairs.push((key, payload, p));
        }
    }
    let mut out: Vec<Vec<Pair>> = vec![vec![]];
    let mut layer: Vec<Vec<Pair>> = vec![vec![]];
    for _ in 0..max_len {
        let mut next = vec![];
        for v in &layer {
            for &p in &pairs {
                let mut w = v.clone();
                w.push(p);
                next.push(w);
            }
        }
        out.extend(next.iter().cloned());
        layer = next;
    }
    out
}

pub fn roots_for(cfg: &Cfg) -> Vec<Root> {
    let mut r = vec![Root::New, Root::Default, Root::WithCapacity(0), Root::WithCapacity(7), Root::WithHasher, Root::WithCapacityAndHasher(3)];
    let pl = if cfg.alphabet & A_PAYLOAD != 0 { PAYLOAD_A } else { 0 };
    for v in all_vectors(cfg.k, &cfg.prios, pl, cfg.root_vec_len) {
        if v.is_empty() {
            r.push(Root::FromVec(vec![]));
            r.push(Root::FromIter(vec![], Hint { lo: 0, hi: Some(0) }));
            continue;
        }
        let n = v.len();
        r.push(Root::FromVec(v.clone()));
        r.push(Root::FromIter(v.clone(), Hint { lo: n, hi: Some(n) }));
        r.push(Root::FromIter(v.clone(), Hint { lo: 0, hi: None }));
        if cfg.alphabet & A_EXTEND_HUGE_HINT != 0 {
            r.push(Root::FromIter(v.clone(), Hint { lo: 0, hi: Some(usize::MAX) }));
        }
    }
    r
}

pub struct Explorer<'a, H: HB> {
    pub cfg: &'a Cfg,
    pub probes: Vec<Box<dyn Probe<H> + 'a>>,
    pub stats: Stats,
    pub violations: Mutex<Vec<Case>>,
    pub stop: AtomicBool,
    /// every unique state, if the caller wants them (pairs / differential checks)
    pub collect: Option<Mutex<Vec<Node<H>>>>,
}

const SHARDS: usize = 256;

impl<'a, H: HB> Explorer<'a, H> {
    pub fn new(cfg: &'a Cfg) -> Self {
        Explorer { cfg, probes: vec![], stats: Stats::default(), violations: Mutex::new(vec![]), stop: AtomicBool::new(false), collect: None }
    }

    pub fn case(&self, node: &Node<H>, last: Option<&Op>, probe: Option<String>, detail: String) -> Case {
        Case {
            prop: self.cfg.prop.to_string(),
            hasher: H::NAME.to_string(),
            double: node.root.0,
            root: node.root.1.clone(),
            ops: node.ops(),
            last: last.cloned(),
            probe,
            detail,
            universe: self.cfg.universe(),
            aux: None,
            trail: vec![],
            params: vec![],
        }
    }

    pub fn report(&self, c: Case) {
        let mut v = self.violations.lock().unwrap();
        let sig = c.signature();
        if !v.iter().any(|x| x.signature() == sig) {
            v.push(c);
        }
        self.stop.store(true, AO::Relaxed);
    }

    fn note_transition(&self, op: &Op, double: bool, n: usize, ap: &Applied<H>, local: &mut LocalStats) {
        local.transitions += 1;
        if matches!(ap.ret, Ret::DocumentedPanic) {
            local.documented_panics += 1;
        }
        local.outcomes.insert(hash64(&(op_name(op), double, format!("{:?}", ap.ret))));
        *local.op_counts.entry(op_name(op)).or_insert(0) += 1;
        if self.cfg.record_costs {
            let e = local.costs.entry((op_name(op), double, n)).or_insert(0);
            if ap.cmps > *e {
                *e = ap.cmps;
            }
        }
    }

    /// state checks that run once per unique state
    fn on_new_state(&self, node: &Node<H>, m: &Model) -> Result<u64, (Option<String>, String)> {
        if self.cfg.deep {
            let r = catch_unwind(AssertUnwindSafe(|| with_q!(&node.q, x => check_deep(x, m, node.unordered))));
            match r {
                Ok(Ok(())) => {}
                Ok(Err(e)) => return Err((Some("deep-observation".into()), e)),
                Err(e) => return Err((Some("deep-observation".into()), format!("panicked: {}", panic_text(&e)))),
            }
        }
        let mut cases = 0;
        for p in &self.probes {
            let r = catch_unwind(AssertUnwindSafe(|| p.on_state(&node.q, m, node.unordered)));
            match r {
                Ok(Ok(n)) => cases += n,
                Ok(Err(e)) => return Err((Some(p.name()), e)),
                Err(e) => return Err((Some(p.name()), format!("panicked: {}", panic_text(&e)))),
            }
        }
        Ok(cases)
    }

    /// E1: BFS to the fixpoint from all constructor roots.
    pub fn run_closed(&self) {
        let mut roots = vec![];
        for &double in &self.cfg.kinds {
            for r in roots_for(self.cfg) {
                roots.push((double, r));
            }
        }
        self.run(roots, None);
    }

    /// BFS from `roots`; `max_depth` = None explores to the fixpoint.
    pub fn run(&self, roots: Vec<(bool, Root)>, max_depth: Option<u64>) {
        let cfg = self.cfg;
        let universe = cfg.universe();
        let seen: Vec<Mutex<HashMap<Vec<u8>, (u64, u64)>>> = (0..SHARDS).map(|_| Mutex::new(HashMap::new())).collect();
        let insert = |key: &Vec<u8>| -> bool {
            let sh = (hash64(key) as usize) % SHARDS;
            seen[sh].lock().unwrap().insert(key.clone(), (0, 0)).is_none()
        };
        // States at the last level of a depth-bounded run are never expanded: they are only
        // de-duplicated so that the per-state checks run once. For them a 128-bit fingerprint of the
        // key is stored instead of the key (hash compaction; 16 bytes instead of up to 1 KB).
        let seen_fp: Vec<Mutex<HashSet<u128>>> = (0..SHARDS).map(|_| Mutex::new(HashSet::new())).collect();
        let insert_fp = |key: &Vec<u8>| -> bool {
            let h1 = hash64(key);
            let h2 = hash64(&(key, 0x9e3779b97f4a7c15u64));
            let sh = (h1 as usize) % SHARDS;
            if seen[sh].lock().unwrap().contains_key(key) {
                return false;
            }
            seen_fp[sh].lock().unwrap().insert(((h1 as u128) << 64) | h2 as u128)
        };
        // merge soundness: fingerprint of all successors (op, return, successor key) of a copy.
        // slot.0 = fingerprint from the canonical copy, slot.1 = from the first re-discovered copy.
        let fingerprint = |q: &AnyQ<H>, unordered: bool| -> u64 {
            let snap = q.snap();
            let m = model_of(&snap);
            let mut ops = vec![];
            let back = with_q!(q, x => iter_mut_offers_back(x));
            gen_ops_for(cfg, q.double(), &m, &snap, back, &mut ops);
            let mut fp = 0u64;
            for op in &ops {
                if let Ok(ap) = apply(q, unordered, &m, op, &universe) {
                    let k = encode_key(ap.q.double(), ap.unordered, &ap.snap);
                    fp = fp.wrapping_add(hash64(&(op, format!("{:?}", ap.ret), k)) | 1);
                }
            }
            (fp | 1) & (u64::MAX >> 1)
        };
        let record_fp = |key: &Vec<u8>, fp: u64, canonical: bool| -> Result<bool, (u64, u64)> {
            let sh = (hash64(key) as usize) % SHARDS;
            let mut g = seen[sh].lock().unwrap();
            let e = g.get_mut(key).unwrap();
            if canonical { e.0 = fp } else { e.1 = fp }
            if e.0 != 0 && e.1 != 0 && e.1 != u64::MAX && e.0 != e.1 { Err(*e) } else { Ok(true) }
        };
        let needs_redisc = |key: &Vec<u8>| -> bool {
            let sh = (hash64(key) as usize) % SHARDS;
            let mut g = seen[sh].lock().unwrap();
            let e = g.get_mut(key).unwrap();
            if e.1 == 0 { e.1 = u64::MAX; true } else { false }
        };
        // roots
        let mut frontier: Vec<Node<H>> = vec![];
        {
            for (double, r) in roots {
                self.stats.roots.fetch_add(1, AO::Relaxed);
                crate::crash::set_case(|| Case { prop: cfg.prop.into(), hasher: H::NAME.into(), double, root: r.clone(), ops: vec![], last: None, probe: None, detail: String::new(), universe: universe.clone(), aux: None, trail: vec![], params: vec![] });
                let root = Arc::new((double, r.clone()));
                match make_root::<H>(double, &r, &universe) {
                    Err(e) => {
                        self.report(Case { prop: cfg.prop.into(), hasher: H::NAME.into(), double, root: r.clone(), ops: vec![], last: None, probe: None, detail: e, universe: universe.clone(), aux: None, trail: vec![], params: vec![] });
                    }
                    Ok(q) => {
                        let s = q.snap();
                        let key = encode_key(double, false, &s);
                        if insert(&key) {
                            let node = Node { q, unordered: false, root, path: None };
                            let m = model_of(&s);
                            self.stats.states.fetch_add(1, AO::Relaxed);
                            match self.on_new_state(&node, &m) {
                                Ok(n) => {
                                    self.stats.probe_cases.fetch_add(n, AO::Relaxed);
                                }
                                Err((p, e)) => self.report(self.case(&node, None, p, e)),
                            }
                            if let Some(c) = &self.collect {
                                c.lock().unwrap().push(node.dup());
                            }
                            frontier.push(node);
                        }
                    }
                }
            }
        }
        let mut depth = 0u64;
        while !frontier.is_empty() && !self.stop.load(AO::Relaxed) {
            if max_depth.map_or(false, |d| depth >= d) {
                break;
            }
            depth += 1;
            // at the last level of a depth-bounded run the successors are checked but not kept
            let keep_children = max_depth.map_or(true, |d| depth < d);
            self.stats.levels.store(depth, AO::Relaxed);
            let next: Mutex<Vec<Node<H>>> = Mutex::new(vec![]);
            let idx = AtomicUsize::new(0);
            let fr = &frontier;
            std::thread::scope(|sc| {
                for _ in 0..cfg.threads.max(1) {
                    sc.spawn(|| {
                        let mut local = LocalStats::default();
                        let mut mine: Vec<Node<H>> = vec![];
                        let mut ops = vec![];
                        loop {
                            let i = idx.fetch_add(1, AO::Relaxed);
                            if i >= fr.len() || self.stop.load(AO::Relaxed) {
                                break;
                            }
                            let node = &fr[i];
                            let snap = node.q.snap();
                            let m = model_of(&snap);
                            let double = node.q.double();
                            let parent_key = encode_key(double, node.unordered, &snap);
                            if cfg.merge_check {
                                let fp = fingerprint(&node.q, node.unordered);
                                if let Err((a, b)) = record_fp(&parent_key, fp, true) {
                                    self.stats.merge_mismatch.lock().unwrap().push(format!("state reached by {:?}: successor fingerprint {a:016x} differs from a re-discovered copy's {b:016x}", node.ops()));
                                }
                            }
                            ops.clear();
                            let back = with_q!(&node.q, x => iter_mut_offers_back(x));
                            gen_ops_for(cfg, double, &m, &snap, back, &mut ops);
                            for op in &ops {
                                crate::crash::set_case(|| self.case(node, Some(op), None, String::new()));
                                match apply(&node.q, node.unordered, &m, op, &universe) {
                                    Err(e) => {
                                        self.report(self.case(node, Some(op), None, e));
                                        break;
                                    }
                                    Ok(ap) => {
                                        if cfg.record_costs {
                                            // C05, small scope: the concrete transition that exceeds its bound is the case
                                            if let Some(e) = crate::cost::small_scope_violation(op_name(op), double, m.len(), ap.cmps) {
                                                self.report(self.case(node, Some(op), Some("cost-small-scope".into()), e));
                                                break;
                                            }
                                        }
                                        self.note_transition(op, double, m.len(), &ap, &mut local);
                                        let key = encode_key(ap.q.double(), ap.unordered, &ap.snap);
                                        local.graph_fp = local.graph_fp.wrapping_add(hash64(&(&parent_key, op, format!("{:?}", ap.ret), &key)));
                                        if if keep_children || cfg.merge_check { insert(&key) } else { insert_fp(&key) } {
                                            local.states += 1;
                                            local.max_len = local.max_len.max(ap.model.len() as u64);
                                            let child = Node {
                                                q: ap.q,
                                                unordered: ap.unordered,
                                                root: node.root.clone(),
                                                path: Some(Arc::new(PathNode { parent: node.path.clone(), op: op.clone() })),
                                            };
                                            crate::crash::set_case(|| self.case(&child, None, Some("state-probes".into()), String::new()));
                                            match self.on_new_state(&child, &ap.model) {
                                                Ok(n) => local.probe_cases += n,
                                                Err((p, e)) => {
                                                    self.report(self.case(&child, None, p, e));
                                                    break;
                                                }
                                            }
                                            if local.samples.len() < 2 && child.path.is_some() {
                                                local.samples.push(format!("{:?} {:?} -> {:?}", child.root, child.ops(), ap.snap.slots));
                                            }
                                            if let Some(c) = &self.collect {
                                                c.lock().unwrap().push(child.dup());
                                            }
                                            if keep_children {
                                                mine.push(child);
                                            }
                                        } else if cfg.merge_check && needs_redisc(&key) {
                                            // merge soundness: the first re-discovered copy of a state must have
                                            // exactly the successors (operation, return, successor key) of the
                                            // canonical copy that the search expands.
                                            local.merge_checked += 1;
                                            let fp = fingerprint(&ap.q, ap.unordered);
                                            if let Err((a, b)) = record_fp(&key, fp, false) {
                                                self.stats.merge_mismatch.lock().unwrap().push(format!("state reached by {:?} then {op:?}: successor fingerprint {b:016x} differs from the canonical copy's {a:016x}", node.ops()));
                                            }
                                        }
                                    }
                                }
                            }
                        }
                        local.flush(&self.stats);
                        next.lock().unwrap().append(&mut mine);
                    });
                }
            });
            frontier = next.into_inner().unwrap();
            if self.stats.states.load(AO::Relaxed) as usize > cfg.max_states || rss_gb() > RSS_CAP_GB {
                self.stats.capped.store(true, AO::Relaxed);
                break;
            }
        }
        self.stats.max_depth.store(depth, AO::Relaxed);
    }
}

pub fn iter_mut_offers_back<Q: QueueLike>(q: &Q) -> bool {
    let mut c = q.clone();
    let r = catch_unwind(AssertUnwindSafe(|| {
        let mut it = c.q_iter_mut();
        // only asks whether the TYPE offers next_back; on an empty clone nothing is yielded
        let offered = it.nb().is_some();
        std::mem::forget(it);
        offered
    }));
    r.unwrap_or(true)
}

#[derive(Default)]
pub struct LocalStats {
    pub states: u64,
    pub transitions: u64,
    pub probe_cases: u64,
    pub merge_checked: u64,
    pub documented_panics: u64,
    pub max_len: u64,
    pub graph_fp: u64,
    pub outcomes: HashSet<u64>,
    pub costs: BTreeMap<(&'static str, bool, usize), u64>,
    pub op_counts: BTreeMap<&'static str, u64>,
    pub samples: Vec<String>,
}

impl LocalStats {
    pub fn flush(&mut self, s: &Stats) {
        s.states.fetch_add(self.states, AO::Relaxed);
        s.transitions.fetch_add(self.transitions, AO::Relaxed);
        s.probe_cases.fetch_add(self.probe_cases, AO::Relaxed);
        s.merge_checked.fetch_add(self.merge_checked, AO::Relaxed);
        s.documented_panics.fetch_add(self.documented_panics, AO::Relaxed);
        s.max_len.fetch_max(self.max_len, AO::Relaxed);
        s.graph_fp.fetch_add(self.graph_fp, AO::Relaxed);
        s.outcomes.lock().unwrap().extend(self.outcomes.drain());
        let mut c = s.costs.lock().unwrap();
        for ((n, d, sz), v) in std::mem::take(&mut self.costs) {
            let e = c.entry((n.to_string(), d, sz)).or_insert(0);
            if v > *e {
                *e = v;
            }
        }
        let mut oc = s.op_counts.lock().unwrap();
        for (n, v) in std::mem::take(&mut self.op_counts) {
            *oc.entry(n.to_string()).or_insert(0) += v;
        }
        let mut sm = s.samples.lock().unwrap();
        if sm.len() < 6 {
            sm.append(&mut self.samples);
        }
        *self = LocalStats::default();
    }
}
