//! C15: serde round trips from every explored state, and totality of deserialisation on every
//! small pair sequence (with repeated items), through JSON text and through serde's
//! non-self-describing SeqDeserializer (with and without a length hint).

use crate::explore::*;
use crate::ops::*;
use crate::post::*;
use crate::props::*;
use crate::queue::*;
use crate::types::*;
use serde_json::json;
use std::panic::{catch_unwind, AssertUnwindSafe};
use std::time::Instant;

const CHANNELS: [&str; 3] = ["json-text", "seq-deserializer(len hint)", "seq-deserializer(no hint)"];

fn de<Q: QueueLike>(src_json: &str, src_val: &serde_json::Value, ch: usize) -> Result<Q, String> {
    let r = catch_unwind(AssertUnwindSafe(|| match ch {
        0 => Q::q_from_json(src_json),
        1 => Q::q_from_values(src_val.as_array().cloned().unwrap_or_default(), true),
        _ => Q::q_from_values(src_val.as_array().cloned().unwrap_or_default(), false),
    }));
    match r {
        Ok(Ok(q)) => Ok(q),
        Ok(Err(e)) => Err(format!("deserialisation through {} failed: {e}", CHANNELS[ch])),
        Err(e) => Err(format!("deserialisation through {} panicked: {}", CHANNELS[ch], panic_text(&e))),
    }
}

fn usable<Q: QueueLike>(q2: &Q, m: &Model, cfg: &Cfg, what: &str) -> Result<u64, String> {
    let uni = cfg.universe();
    let s2 = q2.snap();
    check_state(q2, &s2, m, false, &uni).map_err(|e| format!("{what}: {e}"))?;
    check_deep(q2, m, false).map_err(|e| format!("{what}: {e}"))?;
    let any: AnyQ<Q::H> = any_of(q2.clone());
    let mut ops = vec![];
    gen_ops_for(cfg, Q::DOUBLE, m, &s2, true, &mut ops);
    let mut n = 0;
    for op in &ops {
        n += 1;
        apply(&any, false, m, op, &uni).map_err(|e| format!("{what}, then {op:?}: {e}"))?;
    }
    Ok(n)
}

/// wrap a concrete queue into AnyQ
pub fn any_of<Q: QueueLike>(q: Q) -> AnyQ<Q::H> {
    // Q is either PQ<H> or DPQ<H>; go through Any to pick the variant
    let b: Box<dyn std::any::Any> = Box::new(q);
    match b.downcast::<PQ<Q::H>>() {
        Ok(p) => AnyQ::P(*p),
        Err(b) => AnyQ::D(*b.downcast::<DPQ<Q::H>>().expect("queue kind")),
    }
}

pub fn round_trip<Q: QueueLike>(q: &Q, m: &Model, cfg: &Cfg) -> Result<u64, String> {
    let js = q.q_to_json().map_err(|e| format!("serialisation failed: {e}"))?;
    let val = q.q_to_value().map_err(|e| format!("serialisation to a value failed: {e}"))?;
    let mut cases = 0;
    for ch in 0..3 {
        // same kind
        let q2: Q = de::<Q>(&js, &val, ch)?;
        if !q.q_eq(&q2) || !q2.q_eq(q) || q.q_ne(&q2) {
            return Err(format!("round trip through {} gives a queue that is not == the original: {:?} vs {:?}", CHANNELS[ch], q2.snap().slots, q.snap().slots));
        }
        cases += 1 + usable(&q2, m, cfg, &format!("after a round trip through {}", CHANNELS[ch]))?;
        // into the other kind
        let q3: Q::Other = de::<Q::Other>(&js, &val, ch)?;
        cases += 1 + usable(&q3, m, cfg, &format!("after a round trip through {} into {}", CHANNELS[ch], <Q::Other as QueueLike>::KIND))?;
        let back: Q = q3.q_into_other();
        if !q.q_eq(&back) {
            return Err(format!("round trip through {} into the other kind and back is not == the original", CHANNELS[ch]));
        }
    }
    Ok(cases)
}

/// Deserialising an arbitrary pair sequence: Err, or a valid queue holding each distinct item once
/// with one of the priorities given for it. Never a panic.
pub fn arbitrary_input<Q: QueueLike>(seq: &[Pair], cfg: &Cfg) -> Result<u64, String> {
    let val = serde_json::Value::Array(seq.iter().map(|&(k, pl, p)| json!([[k, pl], p])).collect());
    let js = val.to_string();
    let mut cases = 0;
    for ch in 0..3 {
        cases += 1;
        let r = catch_unwind(AssertUnwindSafe(|| match ch {
            0 => Q::q_from_json(&js),
            1 => Q::q_from_values(val.as_array().cloned().unwrap(), true),
            _ => Q::q_from_values(val.as_array().cloned().unwrap(), false),
        }));
        let q = match r {
            Err(e) => return Err(format!("deserialising {js} through {} panicked: {}", CHANNELS[ch], panic_text(&e))),
            Ok(Err(_)) => continue, // an error is an allowed answer
            Ok(Ok(q)) => q,
        };
        let s = q.snap();
        let got = model_of(&s);
        let mut keys: Vec<u32> = seq.iter().map(|x| x.0).collect();
        keys.sort();
        keys.dedup();
        if q.q_len() != keys.len() || got.len() != keys.len() {
            return Err(format!("deserialising {js} through {}: len() = {}, map holds {}, the sequence has {} distinct items", CHANNELS[ch], q.q_len(), got.len(), keys.len()));
        }
        for k in &keys {
            match got.get(k) {
                Some(&(_, p)) if seq.iter().any(|x| x.0 == *k && x.2 == p) => {}
                other => return Err(format!("deserialising {js} through {}: item {k} ends up as {other:?}", CHANNELS[ch])),
            }
        }
        cases += usable(&q, &got, cfg, &format!("after deserialising {js} through {}", CHANNELS[ch]))?;
    }
    Ok(cases)
}

pub fn run_c15<H: HB>(tier: Tier) -> Outcome {
    let prop = "C15";
    let mut out = Outcome::new();
    let q = tier == Tier::Quick;
    let th = threads();
    let (k, m) = if q { (3u32, 2usize) } else { (3, 3) };
    let _ = q;
    let prios: Vec<i32> = (0..m as i32).collect();
    let t0 = Instant::now();
    let cfg = base_cfg(prop, k, &prios, A_REACH | A_PAYLOAD);
    let mut ex = Explorer::<H>::new(&cfg);
    ex.collect = Some(Default::default());
    ex.run_closed();
    out.absorb(&format!("E1 closed ({k} items x {m} priorities, payloads)"), &ex, t0);
    if !out.violations.is_empty() {
        return out;
    }
    let nodes = ex.collect.take().unwrap().into_inner().unwrap();
    // operations tried on every deserialised queue
    let use_cfg = base_cfg(prop, k, &prios, A_CORE | A_CLEAR_DRAIN | A_ITER_MUT);
    let uni = cfg.universe();
    let t0 = Instant::now();
    let (cases, viol) = par_each(nodes.len(), th, |i| {
        let n = &nodes[i];
        let mm = model_of(&n.q.snap());
        crate::crash::set_case(|| node_case(prop, n, &uni, None, "serde-round-trip", String::new()));
        let r = catch_unwind(AssertUnwindSafe(|| crate::with_q!(&n.q, x => round_trip(x, &mm, &use_cfg))));
        match r {
            Ok(Ok(c)) => Ok(c),
            Ok(Err(e)) => Err(node_case(prop, n, &uni, None, "serde-round-trip", e)),
            Err(e) => Err(node_case(prop, n, &uni, None, "serde-round-trip", format!("panicked: {}", panic_text(&e)))),
        }
    });
    absorb_post(&mut out, "round trip of every E1 state: 3 channels x into both kinds, result ==, valid, every operation at depth 1", cases, viol, t0, json!({"states": nodes.len(), "channels": CHANNELS}));
    if !out.violations.is_empty() {
        return out;
    }
    // deep seeds
    // (4097 / 10000: beyond any preallocation cap a cautious visitor may use for an announced length)
    for n in if q { vec![8usize, 16, 65, 128, 4097] } else { vec![7, 8, 9, 16, 17, 33, 64, 65, 127, 128, 129, 257, 512, 1025, 4096, 4097, 10000, 65537] } {
        let t0 = Instant::now();
        let mut c = seeds_cfg(prop, n, &REL_TERN, 0);
        c.deep = false;
        let seeds = if n <= 8 { f_bin(n) } else if n > 2000 { f_large(n).into_iter().step_by(7).collect() } else if n > 40 { f_large(n) } else { f_seg(n) };
        let mut ex = Explorer::<H>::new(&c);
        ex.collect = Some(Default::default());
        let mut roots = vec![];
        for d in [false, true] {
            for s in &seeds {
                roots.push((d, s.clone()));
            }
        }
        ex.run(roots, Some(0));
        let nodes = ex.collect.take().unwrap().into_inner().unwrap();
        out.absorb(&format!("E2 seeds of {n} elements"), &ex, t0);
        let mut ucfg = seeds_cfg(prop, n, &[5, 15, 35], A_PUSH | A_CHANGE | A_REMOVE | A_POP);
        ucfg.deep = false;
        ucfg.large = n > 40;
        let uni = c.universe();
        let t0 = Instant::now();
        let (cases, viol) = par_each(nodes.len(), th, |i| {
            let nd = &nodes[i];
            let mm = model_of(&nd.q.snap());
            crate::crash::set_case(|| node_case(prop, nd, &uni, None, "serde-round-trip", String::new()));
            let r = catch_unwind(AssertUnwindSafe(|| crate::with_q!(&nd.q, x => round_trip(x, &mm, &ucfg))));
            match r {
                Ok(Ok(c)) => Ok(c),
                Ok(Err(e)) => Err(node_case(prop, nd, &uni, None, "serde-round-trip", e)),
                Err(e) => Err(node_case(prop, nd, &uni, None, "serde-round-trip", format!("panicked: {}", panic_text(&e)))),
            }
        });
        absorb_post(&mut out, &format!("round trip of every seed of {n} elements"), cases, viol, t0, json!({"states": nodes.len()}));
        if !out.violations.is_empty() {
            return out;
        }
    }
    // arbitrary input
    let len = 4;
    let keys: Vec<u32> = (0..3).collect();
    let seqs: Vec<Vec<Pair>> = pair_seqs(&keys, &[0, 1, 2], len).into_iter().map(|s| s.into_iter().map(|(k, _, p)| (k, 0, p)).collect()).collect();
    let acfg = base_cfg(prop, 3, &[0, 1, 2], A_CORE | A_CLEAR_DRAIN);
    let t0 = Instant::now();
    let (cases, viol) = par_each(seqs.len() * 2, th, |i| {
        let d = i % 2 == 1;
        let s = &seqs[i / 2];
        let mk_case = |e: String| Case { prop: prop.into(), hasher: H::NAME.into(), double: d, root: Root::FromVec(s.clone()), ops: vec![], last: None, probe: Some("serde-arbitrary-input".into()), detail: e, universe: vec![0, 1, 2], aux: None, trail: vec![], params: vec![] };
        crate::crash::set_case(|| mk_case(String::new()));
        let r = if d { arbitrary_input::<DPQ<H>>(s, &acfg) } else { arbitrary_input::<PQ<H>>(s, &acfg) };
        r.map_err(mk_case)
    });
    absorb_post(&mut out, &format!("deserialising every pair sequence of <= {len} pairs over 3 items x 3 priorities (repeats included), 3 channels, both kinds"), cases, viol, t0, json!({"sequences": seqs.len()}));
    if out.violations.is_empty() {
        // round trips of every reachable small state for ten instantiations of the element types
        type_matrix(&mut out, prop);
    }
    out
}
