//! Passes over the set of all unique states collected by an exploration: differential and
//! pairwise checks that need more than one state or more than one run of the same input.

use crate::explore::*;
use crate::ops::*;
use crate::queue::*;
use crate::types::*;
use crate::with_q;
use std::panic::{catch_unwind, AssertUnwindSafe};
use std::sync::atomic::{AtomicBool, AtomicU64, AtomicUsize, Ordering as AO};
use std::sync::Mutex;

/// Run `f(i)` for every index, on `threads` threads. Returns (cases run, violations).
pub fn par_each<F>(n: usize, threads: usize, f: F) -> (u64, Vec<Case>)
where
    F: Fn(usize) -> Result<u64, Case> + Sync,
{
    let idx = AtomicUsize::new(0);
    let total = AtomicU64::new(0);
    let stop = AtomicBool::new(false);
    let viol: Mutex<Vec<Case>> = Mutex::new(vec![]);
    std::thread::scope(|sc| {
        for _ in 0..threads.max(1) {
            sc.spawn(|| {
                let mut mine = 0;
                loop {
                    let i = idx.fetch_add(1, AO::Relaxed);
                    if i >= n || stop.load(AO::Relaxed) {
                        break;
                    }
                    match f(i) {
                        Ok(c) => mine += c,
                        Err(c) => {
                            let mut v = viol.lock().unwrap();
                            let sig = c.signature();
                            if !v.iter().any(|x| x.signature() == sig) {
                                v.push(c);
                            }
                            stop.store(true, AO::Relaxed);
                        }
                    }
                }
                total.fetch_add(mine, AO::Relaxed);
            });
        }
    });
    (total.load(AO::Relaxed), viol.into_inner().unwrap())
}

pub fn node_case<H: HB>(prop: &str, node: &Node<H>, universe: &[u32], last: Option<Op>, probe: &str, detail: String) -> Case {
    Case {
        prop: prop.to_string(),
        hasher: H::NAME.to_string(),
        double: node.root.0,
        root: node.root.1.clone(),
        ops: node.ops(),
        last,
        probe: Some(probe.to_string()),
        detail,
        universe: universe.to_vec(),
        aux: None,
        trail: vec![],
        params: vec![],
    }
}

/// All legal size_hint reports for a sequence of `len` pairs (legal: lo <= len <= hi).
pub fn hint_menu(len: usize, huge: bool) -> Vec<Hint> {
    let mut v = vec![
        Hint { lo: len, hi: Some(len) },
        Hint { lo: 0, hi: None },
        Hint { lo: 0, hi: Some(len) },
        Hint { lo: len, hi: None },
        Hint { lo: 0, hi: Some(len + 1) },
        Hint { lo: len.min(1), hi: Some(len.max(17)) },
        Hint { lo: 0, hi: Some(len.max(17)) },
        Hint { lo: 0, hi: Some(1000) },
    ];
    if huge {
        // amounts whose byte size overflows instead of being allocated
        v.push(Hint { lo: 0, hi: Some(usize::MAX / 2) });
        v.push(Hint { lo: 0, hi: Some(usize::MAX) });
        v.push(Hint { lo: len, hi: Some(usize::MAX - 1) });
        v.push(Hint { lo: 0, hi: Some(1usize << 61) });
    }
    v.sort();
    v.dedup();
    v
}

/// extend(seq) on the same receiver with every legal hint: contents must not depend on the hint.
pub fn extend_differential<H: HB>(q: &AnyQ<H>, m: &Model, universe: &[u32], seqs: &[Vec<Pair>], huge: bool, on_case: &dyn Fn(&Op)) -> Result<u64, (Op, String)> {
    let mut cases = 0;
    for seq in seqs {
        let mut first: Option<(Hint, Model)> = None;
        for h in hint_menu(seq.len(), huge) {
            cases += 1;
            let op = Op::Extend(seq.clone(), h);
            on_case(&op);
            let ap = apply(q, false, m, &op, universe).map_err(|e| (op.clone(), e))?;
            match &first {
                None => first = Some((h, ap.model)),
                Some((h0, m0)) => {
                    if *m0 != ap.model {
                        return Err((op, format!("extend gives different contents for size_hint {h:?} ({:?}) than for {h0:?} ({:?})", ap.model, m0)));
                    }
                }
            }
        }
    }
    Ok(cases)
}

/// collect()/from_iter of the same sequence with every legal hint.
pub fn from_iter_differential<H: HB>(double: bool, universe: &[u32], seq: &[Pair], huge: bool) -> Result<u64, (Root, String)> {
    let mut cases = 0;
    let mut first: Option<(Hint, Model)> = None;
    for h in hint_menu(seq.len(), huge) {
        cases += 1;
        let r = Root::FromIter(seq.to_vec(), h);
        let q = make_root::<H>(double, &r, universe).map_err(|e| (r.clone(), e))?;
        let m = model_of(&q.snap());
        match &first {
            None => first = Some((h, m)),
            Some((h0, m0)) => {
                if *m0 != m {
                    return Err((r, format!("from_iter gives different contents for size_hint {h:?} ({m:?}) than for {h0:?} ({m0:?})")));
                }
            }
        }
    }
    Ok(cases)
}

/// a.append(&mut b) on clones of two explored states.
pub fn append_pair<H: HB>(a: &AnyQ<H>, b: &AnyQ<H>, universe: &[u32]) -> Result<(), String> {
    fn go<Q: QueueLike>(a: &Q, b: &Q, universe: &[u32]) -> Result<(), String> {
        let ma = model_of(&a.snap());
        let mb = model_of(&b.snap());
        // capacity histories: which side append keeps may depend on the LENGTHS only, so the same
        // pair is appended with spare capacity on neither side, on the other queue, on the receiver
        for variant in 0..4 {
            go1(a, b, &ma, &mb, variant, universe).map_err(|e| if variant == 0 { e } else { format!("{e} [capacity history {variant}: {}]", ["", "other.reserve(64)", "receiver.reserve(64)", "receiver.shrink_to_fit(), other.reserve(64)"][variant]) })?;
        }
        Ok(())
    }
    fn go1<Q: QueueLike>(a: &Q, b: &Q, ma: &Model, mb: &Model, variant: usize, universe: &[u32]) -> Result<(), String> {
        let mut x = a.clone();
        let mut y = b.clone();
        match variant {
            1 => y.q_reserve(64),
            2 => x.q_reserve(64),
            3 => {
                x.q_shrink_to_fit();
                y.q_reserve(64);
            }
            _ => {}
        }
        let r = catch_unwind(AssertUnwindSafe(|| x.q_append(&mut y)));
        if let Err(e) = r {
            return Err(format!("append panicked: {}", panic_text(&e)));
        }
        let sy = y.snap();
        check_state(&y, &sy, &Model::new(), false, universe).map_err(|e| format!("the appended-from queue is not empty/valid: {e}"))?;
        if sy.size != 0 || y.q_pop_hi().is_some() {
            return Err("the appended-from queue still yields elements".into());
        }
        let mut want = ma.clone();
        for (k, v) in mb {
            match want.get(k) {
                None => {
                    want.insert(*k, *v);
                }
                Some(_) => {
                    if mb.len() > ma.len() {
                        // the other queue was longer: either may stay
                        if let Some((i, p)) = x.q_get_b(&Key(*k)) {
                            if (i.payload, p.v) == *v {
                                want.insert(*k, *v);
                            }
                        }
                    }
                }
            }
        }
        let sx = x.snap();
        check_state(&x, &sx, &want, false, universe).map_err(|e| format!("after append: {e}"))?;
        check_deep(&x, &want, false).map_err(|e| format!("after append: {e}"))?;
        Ok(())
    }
    match (a, b) {
        (AnyQ::P(a), AnyQ::P(b)) => go(a, b, universe),
        (AnyQ::D(a), AnyQ::D(b)) => go(a, b, universe),
        _ => Ok(()),
    }
}

/// a == b must be exactly "same (item, priority) set"; also !=, symmetry.
pub fn eq_pair<H: HB>(a: &AnyQ<H>, b: &AnyQ<H>) -> Result<(), String> {
    fn go<Q: QueueLike>(a: &Q, b: &Q) -> Result<(), String> {
        let to_set = |s: &Snap| -> Vec<(u32, i32)> {
            let mut v: Vec<(u32, i32)> = s.slots.iter().map(|x| (x.0, x.2)).collect();
            v.sort();
            v
        };
        let want = to_set(&a.snap()) == to_set(&b.snap());
        let r = catch_unwind(AssertUnwindSafe(|| (a.q_eq(b), b.q_eq(a), a.q_ne(b), b.q_ne(a))));
        match r {
            Err(e) => Err(format!("== panicked: {}", panic_text(&e))),
            Ok((ab, ba, nab, nba)) => {
                if ab != want || ba != want || nab == want || nba == want {
                    Err(format!(
                        "a == b is {ab}, b == a is {ba}, a != b is {nab}, b != a is {nba}; the (item, priority) sets are {}: a={:?} b={:?}",
                        if want { "equal" } else { "different" },
                        a.snap().slots,
                        b.snap().slots
                    ))
                } else {
                    Ok(())
                }
            }
        }
    }
    match (a, b) {
        (AnyQ::P(a), AnyQ::P(b)) => go(a, b),
        (AnyQ::D(a), AnyQ::D(b)) => go(a, b),
        _ => Ok(()),
    }
}

pub fn same_kind<H: HB>(a: &AnyQ<H>, b: &AnyQ<H>) -> bool {
    a.double() == b.double()
}

pub fn rebuild_state<H: HB>(double: bool, root: &Root, ops: &[Op], universe: &[u32]) -> Result<(AnyQ<H>, Model, bool), String> {
    let mut q = make_root::<H>(double, root, universe)?;
    let mut un = false;
    let mut m = model_of(&q.snap());
    for op in ops {
        let ap = apply(&q, un, &m, op, universe)?;
        q = ap.q;
        un = ap.unordered;
        m = ap.model;
    }
    Ok((q, m, un))
}

pub fn _unused<H: HB>(q: &AnyQ<H>) -> usize {
    with_q!(q, x => x.q_len())
}

/// == between queues built with different hashers.
pub fn eq_cross<H1: HB, H2: HB>(a: &AnyQ<H1>, b: &AnyQ<H2>) -> Result<(), String> {
    let to_set = |s: &Snap| -> Vec<(u32, i32)> {
        let mut v: Vec<(u32, i32)> = s.slots.iter().map(|x| (x.0, x.2)).collect();
        v.sort();
        v
    };
    let (sa, sb) = (a.snap(), b.snap());
    let want = to_set(&sa) == to_set(&sb);
    let r = catch_unwind(AssertUnwindSafe(|| match (a, b) {
        (AnyQ::P(x), AnyQ::P(y)) => Some((x == y, y == x, x != y)),
        (AnyQ::D(x), AnyQ::D(y)) => Some((x == y, y == x, x != y)),
        _ => None,
    }));
    match r {
        Err(e) => Err(format!("== across hashers panicked: {}", panic_text(&e))),
        Ok(None) => Ok(()),
        Ok(Some((ab, ba, ne))) => {
            if ab != want || ba != want || ne == want {
                Err(format!("across hashers ({} vs {}): a == b is {ab}, b == a is {ba}, a != b is {ne}; contents a={:?} b={:?}", H1::NAME, H2::NAME, sa.slots, sb.slots))
            } else {
                Ok(())
            }
        }
    }
}

/// `b.clone_from(&a)` on clones of two explored states: the result must be a faithful clone of a.
pub fn clone_from_pair<H: HB>(a: &AnyQ<H>, b: &AnyQ<H>, universe: &[u32]) -> Result<(), String> {
    fn go<Q: QueueLike>(a: &Q, b: &Q, universe: &[u32]) -> Result<(), String> {
        // capacity histories of the target: tight (a clone), with spare room, once much longer
        // the two extra histories run on the sub-universe without the last item when there are four or
        // more items (every pair of states over 3 items; all pairs over 4 would triple the cost)
        let top = if universe.len() >= 4 { universe.last().copied() } else { None };
        let in_sub = |q: &Q| top.map_or(true, |t| q.q_get_b(&Key(t)).is_none());
        let variants = if in_sub(a) && in_sub(b) { 3 } else { 1 };
        for variant in 0..variants {
            go1(a, b, variant, universe).map_err(|e| if variant == 0 { e } else { format!("{e} [target history {variant}: {}]", ["", "reserve(64)", "8 more elements pushed and removed again"][variant]) })?;
        }
        Ok(())
    }
    fn go1<Q: QueueLike>(a: &Q, b: &Q, variant: usize, universe: &[u32]) -> Result<(), String> {
        let sa = a.snap();
        let ma = model_of(&sa);
        let mut d = b.clone();
        match variant {
            1 => d.q_reserve(64),
            2 => {
                for i in 0..8u32 {
                    d.q_push(Item::new(5_000_000 + i, 0), Prio::new(i as i32 % 3));
                }
                for i in 0..8u32 {
                    d.q_remove_b(&Key(5_000_000 + i));
                }
            }
            _ => {}
        }
        let r = catch_unwind(AssertUnwindSafe(|| d.q_clone_from(a)));
        if let Err(e) = r {
            return Err(format!("clone_from panicked: {}", panic_text(&e)));
        }
        let sd = d.snap();
        check_state(&d, &sd, &ma, false, universe).map_err(|e| format!("after target.clone_from(&source) (target held {:?}): {e}", b.snap().slots))?;
        if sd != sa {
            return Err(format!("clone_from gives a different arrangement than its source: {sd:?} vs {sa:?}"));
        }
        if !d.q_eq(a) || a.snap() != sa {
            return Err("clone_from result is not == its source, or changed the source".into());
        }
        check_deep(&d, &ma, false).map_err(|e| format!("after clone_from: {e}"))?;
        Ok(())
    }
    match (a, b) {
        (AnyQ::P(a), AnyQ::P(b)) => go(a, b, universe),
        (AnyQ::D(a), AnyQ::D(b)) => go(a, b, universe),
        _ => Ok(()),
    }
}
