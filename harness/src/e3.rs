//! E3: fault enumeration. For every explored state, every operation, every class of user callback
//! and every index j below the number of such callbacks the operation performs, the operation is
//! re-run with a panic at exactly the j-th callback (caught); iterators are also leaked. The
//! post-fault states are then explored breadth-first over all continuations (fault-free, and
//! with further faults up to a budget). Only SAFETY is judged: the process must not abort
//! (out-of-bounds unchecked access => std precondition abort in the checked profile), no value
//! may be dropped twice and none leaked (except by an iterator the harness leaked itself).

use crate::explore::*;
use crate::ops::*;
use crate::queue::*;
use crate::types::*;
use crate::with_q;
use std::collections::HashMap;
use std::panic::{catch_unwind, AssertUnwindSafe};
use std::sync::atomic::{AtomicBool, AtomicU64, AtomicUsize, Ordering as AO};
use std::sync::{Arc, Mutex};

pub type Fault = Option<(usize, u64)>;

pub struct FNode<H: HB> {
    /// the queue of this node; frontier nodes do not keep it (memory): it is re-derived by replaying
    /// the trail from the shared base state, which is deterministic
    pub q: Option<AnyQ<H>>,
    pub base_q: Arc<AnyQ<H>>,
    pub faults: u32,
    pub depth: u32,
    pub base: Arc<(bool, Root, Vec<Op>)>,
    pub trail: Option<Arc<Trail>>,
}

pub struct Trail {
    parent: Option<Arc<Trail>>,
    op: Op,
    fault: Fault,
}

fn trail_vec(t: &Option<Arc<Trail>>) -> Vec<(Op, Fault)> {
    let mut v = vec![];
    let mut p = t.clone();
    while let Some(n) = p {
        v.push((n.op.clone(), n.fault));
        p = n.parent.clone();
    }
    v.reverse();
    v
}

pub struct E3Cfg {
    pub prop: &'static str,
    pub fault_cfg: Cfg,
    pub cont_cfg: Cfg,
    pub max_faults: u32,
    pub depth: u32,
    pub threads: usize,
    /// caps (inside the engine): unique post-fault states and wall seconds
    pub max_states: u64,
    pub max_wall_s: f64,
}

pub struct E3Stats {
    pub capped: AtomicBool,
    pub levels: AtomicU64,
    pub base_states: AtomicU64,
    pub post_fault_states: AtomicU64,
    pub transitions: AtomicU64,
    pub fault_points: AtomicU64,
    pub faults_fired: AtomicU64,
    pub cont_panics: AtomicU64,
    pub leaked_iter_cases: AtomicU64,
    pub per_class: [AtomicU64; NCLASS],
    pub samples: Mutex<Vec<String>>,
    pub sample_count: AtomicU64,
    pub outcomes: Vec<Mutex<std::collections::HashSet<u64>>>,
}

impl Default for E3Stats {
    fn default() -> Self {
        E3Stats {
            capped: AtomicBool::new(false),
            levels: AtomicU64::new(0),
            base_states: AtomicU64::new(0),
            post_fault_states: AtomicU64::new(0),
            transitions: AtomicU64::new(0),
            fault_points: AtomicU64::new(0),
            faults_fired: AtomicU64::new(0),
            cont_panics: AtomicU64::new(0),
            leaked_iter_cases: AtomicU64::new(0),
            per_class: Default::default(),
            samples: Mutex::new(vec![]),
            sample_count: AtomicU64::new(0),
            outcomes: (0..64).map(|_| Mutex::new(Default::default())).collect(),
        }
    }
}

impl E3Stats {
    pub fn outcome_count(&self) -> u64 {
        self.outcomes.iter().map(|m| m.lock().unwrap().len() as u64).sum()
    }
}

/// Execute `op` without judging anything but safety. The queue may disappear (a conversion that
/// panics consumes it).
pub fn exec_raw<H: HB>(slot: &mut Option<AnyQ<H>>, op: &Op) {
    if let Op::Convert = op {
        let q = slot.take().unwrap();
        *slot = Some(q.convert());
        return;
    }
    let q = slot.as_mut().unwrap();
    // a best-effort model: the oracle's complaints are ignored here
    let snap = q.snap();
    let mut m = model_of(&snap);
    let mut un = true;
    let _ = with_q!(q, x => step(x, op, &mut m, &mut un));
}

/// Touch everything observable (fault-free); panics here are caught by the caller.
fn observe<Q: QueueLike>(q: &Q, universe: &[u32]) -> u64 {
    let mut acc = q.q_len() as u64 + q.q_is_empty() as u64 + q.q_capacity() as u64;
    if let Some((i, p)) = q.q_peek_hi() {
        acc += i.key as u64 + p.v as u64;
    }
    if Q::DOUBLE {
        if let Some((i, p)) = q.q_peek_lo() {
            acc += i.key as u64 + p.v as u64;
        }
    }
    for &k in universe {
        if let Some((i, p)) = q.q_get_b(&Key(k)) {
            acc += i.key as u64 + p.v as u64;
        }
        if let Some(p) = q.q_get_priority(&Item::new(k, 0)) {
            acc += p.v as u64;
        }
    }
    let mut it = q.q_iter();
    let mut guard = 0;
    while let Some((i, p)) = it.nx() {
        acc += i.key as u64 + p.v as u64;
        guard += 1;
        if guard > 64 {
            break;
        }
    }
    acc
}

/// Consuming observations on clones: sorted drain from both ends, into_iter, into_vec, Debug.
fn observe_deep<Q: QueueLike>(q: &Q) {
    let bound = q.snap().map_len + q.snap().heap.len() + 4;
    let _ = catch_unwind(AssertUnwindSafe(|| {
        let mut c = q.clone();
        for _ in 0..bound {
            if c.q_pop_hi().is_none() {
                break;
            }
        }
    }));
    if Q::DOUBLE {
        let _ = catch_unwind(AssertUnwindSafe(|| {
            let mut c = q.clone();
            for _ in 0..bound {
                if c.q_pop_lo().is_none() {
                    break;
                }
            }
        }));
        let _ = catch_unwind(AssertUnwindSafe(|| {
            let mut it = q.clone().q_into_sorted_iter();
            for i in 0..bound {
                let r = if i % 2 == 0 { it.nx() } else { it.nb().flatten() };
                if r.is_none() {
                    break;
                }
            }
        }));
    }
    let _ = catch_unwind(AssertUnwindSafe(|| {
        let mut it = q.clone().q_into_iter();
        for _ in 0..bound {
            if it.nx().is_none() {
                break;
            }
        }
    }));
    let _ = catch_unwind(AssertUnwindSafe(|| q.clone().q_into_vec().len()));
    let _ = catch_unwind(AssertUnwindSafe(|| q.clone().q_into_desc_vec().len()));
    let _ = catch_unwind(AssertUnwindSafe(|| format!("{:?}", q_debug(q)).len()));
    let _ = catch_unwind(AssertUnwindSafe(|| q.clone().q_into_other().q_len()));
}

fn q_debug<Q: QueueLike>(q: &Q) -> String {
    q.q_debug()
}

/// Key of a possibly inconsistent queue: the raw tables plus what lookups answer.
fn raw_key<H: HB>(q: &Option<AnyQ<H>>, faults: u32, universe: &[u32]) -> Vec<u8> {
    let mut k = vec![faults as u8];
    match q {
        None => k.push(0xff),
        Some(q) => {
            let s = q.snap();
            k.push(q.double() as u8);
            for v in [s.size, s.map_len, s.heap.len(), s.qp.len(), s.slots.len()] {
                k.extend_from_slice(&(v as u32).to_le_bytes());
            }
            for &(key, pl, p) in &s.slots {
                k.extend_from_slice(&key.to_le_bytes());
                k.push(pl);
                k.extend_from_slice(&p.to_le_bytes());
            }
            for &h in s.heap.iter().chain(s.qp.iter()) {
                k.extend_from_slice(&(h as u32).to_le_bytes());
            }
            for &u in universe {
                let r = catch_unwind(AssertUnwindSafe(|| with_q!(q, x => x.q_get_b(&Key(u)).map(|(i, p)| (i.key, p.v)))));
                match r {
                    Ok(Some((a, b))) => {
                        k.push(1);
                        k.extend_from_slice(&a.to_le_bytes());
                        k.extend_from_slice(&b.to_le_bytes());
                    }
                    Ok(None) => k.push(0),
                    Err(_) => k.push(2),
                }
            }
        }
    }
    k
}

fn hash64<T: std::hash::Hash>(t: &T) -> u64 {
    use std::hash::Hasher;
    let mut h = std::collections::hash_map::DefaultHasher::new();
    t.hash(&mut h);
    h.finish()
}

fn op_leaks_elements(op: &Op) -> bool {
    matches!(op, Op::Drain { end: End::Forget, .. })
}

pub struct E3<'a, H: HB> {
    pub cfg: &'a E3Cfg,
    pub stats: E3Stats,
    pub violations: Mutex<Vec<Case>>,
    pub stop: AtomicBool,
    seen: Vec<Mutex<HashMap<Vec<u8>, ()>>>,
    _h: std::marker::PhantomData<H>,
}

pub struct TransOut<H: HB> {
    pub calls: [u64; NCLASS],
    pub successor: Option<AnyQ<H>>,
    pub is_new: bool,
}

impl<'a, H: HB> E3<'a, H> {
    pub fn new(cfg: &'a E3Cfg) -> Self {
        E3 { cfg, stats: E3Stats::default(), violations: Mutex::new(vec![]), stop: AtomicBool::new(false), seen: (0..256).map(|_| Mutex::new(HashMap::new())).collect(), _h: Default::default() }
    }

    fn case(&self, node: &FNode<H>, op: &Op, fault: Fault, detail: String) -> Case {
        let mut trail = trail_vec(&node.trail);
        trail.push((op.clone(), fault));
        Case {
            prop: self.cfg.prop.to_string(),
            hasher: H::NAME.to_string(),
            double: node.base.0,
            root: node.base.1.clone(),
            ops: node.base.2.clone(),
            last: None,
            probe: Some("fault-trail".into()),
            detail,
            universe: self.cfg.fault_cfg.universe(),
            aux: None,
            trail,
            params: vec![],
        }
    }

    fn report(&self, c: Case) {
        let mut v = self.violations.lock().unwrap();
        let sig = c.signature();
        if !v.iter().any(|x| x.signature() == sig) {
            v.push(c);
        }
        self.stop.store(true, AO::Relaxed);
    }

    /// One transition inside its own registry window. Returns the callback counts of the run.
    pub fn transition(&self, node: &FNode<H>, nq: &AnyQ<H>, op: &Op, fault: Fault, want_successor: bool, want_clone: bool) -> Result<TransOut<H>, String> {
        let universe = self.cfg.fault_cfg.universe();
        registry_begin();
        let mut slot = Some(nq.clone());
        reset_calls();
        if let Some((c, j)) = fault {
            arm(c, j);
        }
        let res = catch_unwind(AssertUnwindSafe(|| exec_raw(&mut slot, op)));
        let fired = disarm();
        let calls = calls();
        if fault.is_some() && fired {
            self.stats.faults_fired.fetch_add(1, AO::Relaxed);
        }
        if res.is_err() && fault.is_none() {
            self.stats.cont_panics.fetch_add(1, AO::Relaxed);
        }
        // fault-free observation of whatever is left
        if let Some(q) = &slot {
            let _ = catch_unwind(AssertUnwindSafe(|| with_q!(q, x => observe(x, &universe))));
        }
        let new_faults = node.faults + fault.is_some() as u32;
        let key = raw_key(&slot, new_faults, &universe);
        let sh = (hash64(&key) as usize) % self.seen.len();
        let is_new = slot.is_some() && want_successor && self.seen[sh].lock().unwrap().insert(key, ()).is_none();
        let mut successor = None;
        if is_new {
            if let Some(q) = &slot {
                with_q!(q, x => observe_deep(x));
                if want_clone {
                    registry_pause(true);
                    successor = catch_unwind(AssertUnwindSafe(|| q.clone())).ok();
                    registry_pause(false);
                }
            }
        }
        let leaked_ok = op_leaks_elements(op);
        let dr = catch_unwind(AssertUnwindSafe(|| drop(slot)));
        let (_created, live, dd) = registry_end();
        if dr.is_err() {
            return Err("dropping the queue panicked".into());
        }
        if dd > 0 {
            return Err(format!("{dd} item/priority value(s) were dropped twice"));
        }
        if live > 0 && !leaked_ok {
            return Err(format!("{live} item/priority value(s) were leaked (never dropped) although no iterator was leaked"));
        }
        if leaked_ok {
            self.stats.leaked_iter_cases.fetch_add(1, AO::Relaxed);
        }
        let oh = hash64(&(op_name(op), fault.map(|f| f.0), fired, res.is_err(), live > 0));
        // thread-local cache in front of the shared set: the set is tiny, the stream is not
        thread_local! { static SEEN_OUT: std::cell::RefCell<std::collections::HashSet<u64>> = std::cell::RefCell::new(Default::default()); }
        let fresh = SEEN_OUT.with(|s| s.borrow_mut().insert(oh));
        if fresh {
            self.stats.outcomes[(oh % 64) as usize].lock().unwrap().insert(oh);
        }
        Ok(TransOut { calls, successor, is_new })
    }

    /// Re-derive the queue of a frontier node: replay its trail (with the same injected faults)
    /// from the shared base state.
    pub fn rebuild(&self, node: &FNode<H>) -> Option<AnyQ<H>> {
        if let Some(q) = &node.q {
            return Some(q.clone());
        }
        let mut slot = Some((*node.base_q).clone());
        for (op, fault) in trail_vec(&node.trail) {
            if slot.is_none() {
                return None;
            }
            reset_calls();
            if let Some((c, j)) = fault {
                arm(c, j);
            }
            let _ = catch_unwind(AssertUnwindSafe(|| exec_raw(&mut slot, &op)));
            disarm();
        }
        slot
    }

    fn expand(&self, node: &FNode<H>, next: &mut Vec<FNode<H>>) {
        let cfg = self.cfg;
        let Some(nq) = self.rebuild(node) else { return };
        let nq = &nq;
        let snap = nq.snap();
        let m = model_of(&snap);
        let mut ops = vec![];
        let acfg = if node.faults == 0 { &cfg.fault_cfg } else { &cfg.cont_cfg };
        gen_ops(acfg, nq.double(), &m, true, &mut ops);
        for op in &ops {
            if self.stop.load(AO::Relaxed) {
                return;
            }
            // fault-free run: gives the callback counts; is itself a continuation for post-fault nodes
            crate::crash::set_case(|| self.case(node, op, None, String::new()));
            let can_go_deeper = node.depth < cfg.depth;
            let t0 = match self.transition(node, nq, op, None, node.faults > 0 && can_go_deeper, false) {
                Ok(t) => t,
                Err(e) => {
                    self.report(self.case(node, op, None, e));
                    return;
                }
            };
            self.stats.transitions.fetch_add(1, AO::Relaxed);
            if t0.is_new {
                self.stats.post_fault_states.fetch_add(1, AO::Relaxed);
                next.push(FNode { q: None, base_q: node.base_q.clone(), faults: node.faults, depth: node.depth + 1, base: node.base.clone(), trail: Some(Arc::new(Trail { parent: node.trail.clone(), op: op.clone(), fault: None })) });
            }
            if node.faults >= cfg.max_faults || (node.faults > 0 && !can_go_deeper) {
                continue;
            }
            for class in 0..NCLASS {
                // A panic of the closure unwinds through the live `IterMut` guard, whose destructor
                // rebuilds the heap. On a queue whose tables an EARLIER caught panic left inconsistent
                // that rebuild panics too (a checked `unwrap`), and a panic in a destructor during
                // unwinding makes Rust abort the process: a safe abort, not undefined behaviour, and so
                // outside what C10 forbids; but it would end the search. Not enumerated as a second fault.
                if node.faults > 0 && class == C_CLOSURE && matches!(op, Op::IterMutForEach { .. } | Op::IterMutFind { .. }) {
                    continue;
                }
                for j in 0..t0.calls[class] {
                    let fault = Some((class, j));
                    crate::crash::set_case(|| self.case(node, op, fault, String::new()));
                    self.stats.fault_points.fetch_add(1, AO::Relaxed);
                    self.stats.per_class[class].fetch_add(1, AO::Relaxed);
                    match self.transition(node, nq, op, fault, true, false) {
                        Err(e) => {
                            self.report(self.case(node, op, fault, e));
                            return;
                        }
                        Ok(t) => {
                            self.stats.transitions.fetch_add(1, AO::Relaxed);
                            if t.is_new {
                                self.stats.post_fault_states.fetch_add(1, AO::Relaxed);
                                let depth = if node.faults == 0 { 0 } else { node.depth + 1 };
                                let child = FNode { q: None, base_q: node.base_q.clone(), faults: node.faults + 1, depth, base: node.base.clone(), trail: Some(Arc::new(Trail { parent: node.trail.clone(), op: op.clone(), fault })) };
                                if self.stats.sample_count.fetch_add(1, AO::Relaxed) < 4 {
                                    let tables = self.rebuild(&child).map(|q| format!("{:?}", q.snap())).unwrap_or_default();
                                    self.stats.samples.lock().unwrap().push(format!("{:?} {:?} then {:?} -> tables {tables}", node.base.1, node.base.2, trail_vec(&child.trail)));
                                }
                                next.push(child);
                            }
                        }
                    }
                }
            }
        }
    }

    /// `bases`: explored fault-free states (kind, root, path).
    pub fn run(&self, bases: Vec<FNode<H>>) {
        self.stats.base_states.store(bases.len() as u64, AO::Relaxed);
        let mut frontier = bases;
        let t0 = std::time::Instant::now();
        while !frontier.is_empty() && !self.stop.load(AO::Relaxed) {
            self.stats.levels.fetch_add(1, AO::Relaxed);
            if std::env::var_os("PQMC_DEBUG").is_some() {
                eprintln!("[e3] level {} frontier {} post-fault states {} transitions {} t={:.1}s", self.stats.levels.load(AO::Relaxed), frontier.len(), self.stats.post_fault_states.load(AO::Relaxed), self.stats.transitions.load(AO::Relaxed), t0.elapsed().as_secs_f64());
            }
            let next: Mutex<Vec<FNode<H>>> = Mutex::new(vec![]);
            let idx = AtomicUsize::new(0);
            let fr = &frontier;
            std::thread::scope(|sc| {
                for _ in 0..self.cfg.threads.max(1) {
                    sc.spawn(|| {
                        let mut mine = vec![];
                        loop {
                            let i = idx.fetch_add(1, AO::Relaxed);
                            if i >= fr.len() || self.stop.load(AO::Relaxed) {
                                break;
                            }
                            if self.stats.post_fault_states.load(AO::Relaxed) > self.cfg.max_states || t0.elapsed().as_secs_f64() > self.cfg.max_wall_s || (i % 64 == 0 && crate::explore::rss_gb() > crate::explore::RSS_CAP_GB) {
                                self.stats.capped.store(true, AO::Relaxed);
                                break;
                            }
                            self.expand(&fr[i], &mut mine);
                        }
                        next.lock().unwrap().append(&mut mine);
                    });
                }
            });
            frontier = next.into_inner().unwrap();
            if self.stats.capped.load(AO::Relaxed) {
                break;
            }
        }
    }
}

/// Replay of a recorded fault trail (no dedup, same windows).
pub fn replay_trail<H: HB>(prop: &'static str, c: &Case) -> Result<(), String> {
    let (q, _, _) = crate::post::rebuild_state::<H>(c.double, &c.root, &c.ops, &c.universe)?;
    let fc = crate::props::base_cfg(prop, c.universe.len() as u32, &[0, 1, 2], 0);
    let cfg = E3Cfg { prop, fault_cfg: fc.clone(), cont_cfg: fc, max_faults: 9, depth: 99, threads: 1, max_states: u64::MAX, max_wall_s: 1e9 };
    let e3 = E3::<H>::new(&cfg);
    let base = Arc::new((c.double, c.root.clone(), c.ops.clone()));
    let mut node = FNode { base_q: Arc::new(q.clone()), q: Some(q), faults: 0, depth: 0, base, trail: None };
    for (i, (op, fault)) in c.trail.iter().enumerate() {
        crate::crash::set_case(|| c.clone());
        println!("  trail step {i}: {op:?} fault={:?}", fault.map(|(cl, j)| format!("{}#{j}", CLASS_NAMES[cl])));
        // force a successor: clear the dedup set
        for s in &e3.seen {
            s.lock().unwrap().clear();
        }
        let nq = node.q.clone().unwrap();
        let t = e3.transition(&node, &nq, op, *fault, true, true).map_err(|e| format!("trail step {i} {op:?} fault {fault:?}: {e}"))?;
        match t.successor {
            Some(q) => {
                println!("      -> tables {:?}", q.snap());
                node = FNode { base_q: node.base_q.clone(), q: Some(q), faults: node.faults + fault.is_some() as u32, depth: 0, base: node.base.clone(), trail: None };
            }
            None => {
                println!("      -> the queue was consumed");
                break;
            }
        }
    }
    Ok(())
}
