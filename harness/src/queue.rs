//! One interface over the two queue kinds, so that explorers and oracles are written once.

use crate::types::*;
use priority_queue::core_iterators::{Drain, IntoIter, Iter};
use priority_queue::{DoublePriorityQueue, PriorityQueue, TryReserveError};
use std::marker::PhantomData;

pub type PQ<H> = PriorityQueue<Item, Prio, H>;
pub type DPQ<H> = DoublePriorityQueue<Item, Prio, H>;
/// (key, payload, priority)
pub type Pair = (u32, u8, i32);

pub fn pair_of(i: &Item, p: &Prio) -> Pair {
    (i.key, i.payload, p.v)
}
pub fn mk(pr: Pair) -> (Item, Prio) {
    (Item::new(pr.0, pr.1), Prio::new(pr.2))
}

/// Copy of the internal tables obtained through the hook.
#[derive(Clone, Debug, PartialEq, Eq)]
pub struct Snap {
    pub heap: Vec<usize>,
    pub qp: Vec<usize>,
    pub size: usize,
    pub map_len: usize,
    pub slots: Vec<Pair>,
}

// ---------------------------------------------------------------------------------------------
// capability detection for iterators (autoref specialisation): whether a concrete iterator type
// declares DoubleEndedIterator / ExactSizeIterator / FusedIterator is discovered at compile
// time from the real crate, so the harness follows whatever the crate declares.

pub type AdOut = Vec<(String, Result<(usize, usize), String>)>;

pub struct Caps<I>(pub I);

pub trait BackYes<T> {
    fn back(&mut self) -> Option<Option<T>>;
    fn nth_back_(&mut self, k: usize) -> Option<Option<T>>;
    fn rfind_(&mut self, pred: &mut dyn FnMut(&T) -> bool) -> Option<Option<T>>;
    /// `rev().for_each(..)` (built on `rfold`), by value
    fn rev_all_(self) -> Option<Vec<T>>
    where
        Self: Sized;
    /// `rev().for_each(f)`; false = not double-ended (f never called)
    fn rev_for_each_(self, f: &mut dyn FnMut(T)) -> bool
    where
        Self: Sized;
}
impl<T, I: DoubleEndedIterator<Item = T>> BackYes<T> for Caps<I> {
    fn rfind_(&mut self, pred: &mut dyn FnMut(&T) -> bool) -> Option<Option<T>> {
        Some(self.0.rfind(|t| pred(t)))
    }
    fn rev_all_(self) -> Option<Vec<T>> {
        let mut v = vec![];
        self.0.rev().for_each(|t| v.push(t));
        Some(v)
    }
    fn rev_for_each_(self, f: &mut dyn FnMut(T)) -> bool {
        self.0.rev().for_each(|t| f(t));
        true
    }
    fn back(&mut self) -> Option<Option<T>> {
        Some(self.0.next_back())
    }
    fn nth_back_(&mut self, k: usize) -> Option<Option<T>> {
        Some(self.0.nth_back(k))
    }
}
pub trait BackNo<T> {
    fn back(&mut self) -> Option<Option<T>> {
        None
    }
    fn nth_back_(&mut self, _k: usize) -> Option<Option<T>> {
        None
    }
    fn rfind_(&mut self, _pred: &mut dyn FnMut(&T) -> bool) -> Option<Option<T>> {
        None
    }
    fn rev_all_(self) -> Option<Vec<T>>
    where
        Self: Sized,
    {
        None
    }
    fn rev_for_each_(self, _f: &mut dyn FnMut(T)) -> bool
    where
        Self: Sized,
    {
        false
    }
}
impl<T, I: Iterator<Item = T>> BackNo<T> for &mut Caps<I> {}

pub trait LenYes {
    fn xlen(&self) -> Option<usize>;
}
impl<I: ExactSizeIterator> LenYes for Caps<I> {
    fn xlen(&self) -> Option<usize> {
        Some(self.0.len())
    }
}
pub trait LenNo {
    fn xlen(&self) -> Option<usize> {
        None
    }
}
impl<I> LenNo for &Caps<I> {}

pub trait FusedYes {
    fn fused(&self) -> bool;
}
impl<I: std::iter::FusedIterator> FusedYes for Caps<I> {
    fn fused(&self) -> bool {
        true
    }
}
pub trait FusedNo {
    fn fused(&self) -> bool {
        false
    }
}
impl<I> FusedNo for &Caps<I> {}

/// Object-safe view of any iterator of the crate.
pub trait DynIter<T> {
    fn nx(&mut self) -> Option<T>;
    /// `None` = the type does not offer next_back
    fn nb(&mut self) -> Option<Option<T>>;
    fn nth(&mut self, k: usize) -> Option<T>;
    fn nth_back(&mut self, k: usize) -> Option<Option<T>>;
    /// by-value consumers (an implementation may override them)
    fn last_(self: Box<Self>) -> Option<T>;
    fn count_(self: Box<Self>) -> usize;
    /// `for_each` (built on `fold`, which an implementation may override)
    fn for_each_(self: Box<Self>, f: &mut dyn FnMut(T));
    /// `find` (built on `try_fold`)
    fn find_(&mut self, pred: &mut dyn FnMut(&T) -> bool) -> Option<T>;
    /// `rfind` (built on `try_rfold`); `None` = not double-ended
    fn rfind_(&mut self, pred: &mut dyn FnMut(&T) -> bool) -> Option<Option<T>>;
    /// everything `rev().for_each(..)` visits (built on `rfold`); `None` = not double-ended
    fn rev_all_(self: Box<Self>) -> Option<Vec<T>>;
    fn rev_for_each_(self: Box<Self>, f: &mut dyn FnMut(T)) -> bool;
    /// `None` = the type does not declare ExactSizeIterator
    fn xlen(&self) -> Option<usize>;
    fn hint(&self) -> (usize, Option<usize>);
    fn fused(&self) -> bool;
}

macro_rules! dyn_iter_impl {
    ($name:ident, $ty:ty, $item:ty, [$($g:tt)*], [$($u:tt)*]) => {
        pub struct $name<$($g)*>(pub Caps<$ty>);
        impl<$($g)*> DynIter<$item> for $name<$($u)*> {
            fn nx(&mut self) -> Option<$item> { self.0 .0.next() }
            fn nb(&mut self) -> Option<Option<$item>> { (&mut self.0).back() }
            fn nth(&mut self, k: usize) -> Option<$item> { self.0 .0.nth(k) }
            fn nth_back(&mut self, k: usize) -> Option<Option<$item>> { (&mut self.0).nth_back_(k) }
            fn last_(self: Box<Self>) -> Option<$item> { self.0 .0.last() }
            fn count_(self: Box<Self>) -> usize { self.0 .0.count() }
            fn for_each_(self: Box<Self>, f: &mut dyn FnMut($item)) { self.0 .0.for_each(|t| f(t)) }
            fn find_(&mut self, pred: &mut dyn FnMut(&$item) -> bool) -> Option<$item> { self.0 .0.find(|t| pred(t)) }
            fn rfind_(&mut self, pred: &mut dyn FnMut(&$item) -> bool) -> Option<Option<$item>> { (&mut self.0).rfind_(pred) }
            #[allow(unused_mut)]
            fn rev_all_(self: Box<Self>) -> Option<Vec<$item>> { let mut c = self.0; c.rev_all_() }
            #[allow(unused_mut)]
            fn rev_for_each_(self: Box<Self>, f: &mut dyn FnMut($item)) -> bool { let mut c = self.0; c.rev_for_each_(f) }
            fn xlen(&self) -> Option<usize> { (&self.0).xlen() }
            fn hint(&self) -> (usize, Option<usize>) { self.0 .0.size_hint() }
            fn fused(&self) -> bool { (&self.0).fused() }
        }
    };
}

type RefPair<'a> = (&'a Item, &'a Prio);
type MutPair<'a> = (&'a mut Item, &'a mut Prio);
type OwnPair = (Item, Prio);

dyn_iter_impl!(DIter, Iter<'a, Item, Prio>, RefPair<'a>, ['a], ['a]);
dyn_iter_impl!(DIntoIter, IntoIter<Item, Prio>, OwnPair, [], []);
dyn_iter_impl!(DDrain, Drain<'a, Item, Prio>, OwnPair, ['a], ['a]);
dyn_iter_impl!(DPqIterMut, priority_queue::priority_queue::iterators::IterMut<'a, Item, Prio, H>, MutPair<'a>, ['a, H: HB], ['a, H]);
dyn_iter_impl!(DDpqIterMut, priority_queue::double_priority_queue::iterators::IterMut<'a, Item, Prio, H>, MutPair<'a>, ['a, H: HB], ['a, H]);
dyn_iter_impl!(DPqSorted, priority_queue::priority_queue::iterators::IntoSortedIter<Item, Prio, H>, OwnPair, [H: HB], [H]);
dyn_iter_impl!(DDpqSorted, priority_queue::double_priority_queue::iterators::IntoSortedIter<Item, Prio, H>, OwnPair, [H: HB], [H]);

// ---------------------------------------------------------------------------------------------

pub trait QueueLike: Sized + Clone + std::fmt::Debug + 'static {
    type H: HB;
    type Other: QueueLike<H = Self::H, Other = Self>;
    const DOUBLE: bool;
    const KIND: &'static str;

    fn q_new() -> Self;
    fn q_default() -> Self;
    fn q_with_capacity(c: usize) -> Self;
    fn q_with_hasher() -> Self;
    fn q_with_capacity_and_hasher(c: usize) -> Self;
    fn q_from_vec(v: Vec<(Item, Prio)>) -> Self;
    fn q_from_iter<T: IntoIterator<Item = (Item, Prio)>>(it: T) -> Self;
    fn q_into_other(self) -> Self::Other;

    fn snap(&self) -> Snap;
    fn q_len(&self) -> usize;
    fn q_is_empty(&self) -> bool;
    fn q_capacity(&self) -> usize;

    fn q_push(&mut self, i: Item, p: Prio) -> Option<Prio>;
    fn q_push_increase(&mut self, i: Item, p: Prio) -> Option<Prio>;
    fn q_push_decrease(&mut self, i: Item, p: Prio) -> Option<Prio>;
    fn q_change_priority(&mut self, i: &Item, p: Prio) -> Option<Prio>;
    fn q_change_priority_b(&mut self, k: &Key, p: Prio) -> Option<Prio>;
    fn q_change_priority_by<F: FnOnce(&mut Prio)>(&mut self, i: &Item, f: F) -> bool;
    fn q_change_priority_by_b<F: FnOnce(&mut Prio)>(&mut self, k: &Key, f: F) -> bool;
    fn q_remove(&mut self, i: &Item) -> Option<(Item, Prio)>;
    fn q_remove_b(&mut self, k: &Key) -> Option<(Item, Prio)>;
    fn q_get(&self, i: &Item) -> Option<(&Item, &Prio)>;
    fn q_get_b(&self, k: &Key) -> Option<(&Item, &Prio)>;
    fn q_get_priority(&self, i: &Item) -> Option<&Prio>;
    fn q_get_priority_b(&self, k: &Key) -> Option<&Prio>;
    fn q_get_mut(&mut self, i: &Item) -> Option<(&mut Item, &Prio)>;
    fn q_get_mut_b(&mut self, k: &Key) -> Option<(&mut Item, &Prio)>;

    /// PQ: peek / DPQ: peek_max
    fn q_peek_hi(&self) -> Option<(&Item, &Prio)>;
    /// DPQ only: peek_min
    fn q_peek_lo(&self) -> Option<(&Item, &Prio)>;
    fn q_peek_hi_mut(&mut self) -> Option<(&mut Item, &Prio)>;
    fn q_peek_lo_mut(&mut self) -> Option<(&mut Item, &Prio)>;
    fn q_pop_hi(&mut self) -> Option<(Item, Prio)>;
    fn q_pop_lo(&mut self) -> Option<(Item, Prio)>;
    fn q_pop_hi_if<F: FnOnce(&mut Item, &mut Prio) -> bool>(&mut self, f: F) -> Option<(Item, Prio)>;
    fn q_pop_lo_if<F: FnOnce(&mut Item, &mut Prio) -> bool>(&mut self, f: F) -> Option<(Item, Prio)>;

    fn q_retain<F: FnMut(&Item, &Prio) -> bool>(&mut self, f: F);
    fn q_retain_mut<F: FnMut(&mut Item, &mut Prio) -> bool>(&mut self, f: F);
    fn q_extend<T: IntoIterator<Item = (Item, Prio)>>(&mut self, it: T);
    fn q_append(&mut self, o: &mut Self);
    fn q_clear(&mut self);
    fn q_reserve(&mut self, a: usize);
    fn q_reserve_exact(&mut self, a: usize);
    fn q_try_reserve(&mut self, a: usize) -> Result<(), TryReserveError>;
    fn q_try_reserve_exact(&mut self, a: usize) -> Result<(), TryReserveError>;
    fn q_shrink_to_fit(&mut self);
    fn q_eq(&self, o: &Self) -> bool;
    fn q_ne(&self, o: &Self) -> bool;
    fn q_into_vec(self) -> Vec<Item>;
    /// PQ: into_sorted_vec (descending). DPQ: into_descending_sorted_vec.
    fn q_into_desc_vec(self) -> Vec<Item>;
    /// DPQ only.
    fn q_into_asc_vec(self) -> Vec<Item>;

    fn q_iter<'a>(&'a self) -> Box<dyn DynIter<RefPair<'a>> + 'a>;
    /// through `&queue` IntoIterator
    fn q_iter_ref<'a>(&'a self) -> Box<dyn DynIter<RefPair<'a>> + 'a>;
    fn q_iter_mut<'a>(&'a mut self) -> Box<dyn DynIter<MutPair<'a>> + 'a>;
    /// through `&mut queue` IntoIterator
    fn q_iter_mut_ref<'a>(&'a mut self) -> Box<dyn DynIter<MutPair<'a>> + 'a>;
    fn q_drain<'a>(&'a mut self) -> Box<dyn DynIter<OwnPair> + 'a>;
    fn q_into_iter(self) -> Box<dyn DynIter<OwnPair>>;
    fn q_into_sorted_iter(self) -> Box<dyn DynIter<OwnPair>>;

    fn q_debug(&self) -> String;
    fn q_clone_from(&mut self, src: &Self);
    fn q_to_json(&self) -> Result<String, String>;
    fn q_to_value(&self) -> Result<serde_json::Value, String>;
    fn q_from_json(s: &str) -> Result<Self, String>;
    /// through serde's non-self-describing SeqDeserializer, with or without a length hint
    fn q_from_values(v: Vec<serde_json::Value>, with_hint: bool) -> Result<Self, String>;

    /// std adaptor matrix over the non-mutable iterators: returns (label, Result<len, panic msg>)
    fn q_adaptor_lens(&self, j: usize, out: &mut AdOut);
    /// same for the mutable iterator (C09)
    fn q_adaptor_lens_mut(&self, j: usize, out: &mut AdOut);
}

macro_rules! common_impl {
    ($ty:ident) => {
        fn q_new() -> Self { <$ty<H>>::with_default_hasher() }
        fn q_default() -> Self { <$ty<H> as Default>::default() }
        fn q_with_capacity(c: usize) -> Self { <$ty<H>>::with_capacity_and_default_hasher(c) }
        fn q_with_hasher() -> Self { <$ty<H>>::with_hasher(H::default()) }
        fn q_with_capacity_and_hasher(c: usize) -> Self { <$ty<H>>::with_capacity_and_hasher(c, H::default()) }
        fn q_from_vec(v: Vec<(Item, Prio)>) -> Self { <$ty<H> as From<Vec<(Item, Prio)>>>::from(v) }
        fn q_from_iter<T: IntoIterator<Item = (Item, Prio)>>(it: T) -> Self { <$ty<H> as FromIterator<(Item, Prio)>>::from_iter(it) }
        fn q_into_other(self) -> Self::Other { self.into() }
        fn snap(&self) -> Snap {
            let s = self.verif_snapshot();
            Snap { heap: s.heap, qp: s.qp, size: s.size, map_len: s.map_len,
                   slots: s.slots.iter().map(|(i, p)| pair_of(i, p)).collect() }
        }
        fn q_len(&self) -> usize { <$ty<H>>::len(self) }
        fn q_is_empty(&self) -> bool { <$ty<H>>::is_empty(self) }
        fn q_capacity(&self) -> usize { <$ty<H>>::capacity(self) }
        fn q_push(&mut self, i: Item, p: Prio) -> Option<Prio> { <$ty<H>>::push(self, i, p) }
        fn q_push_increase(&mut self, i: Item, p: Prio) -> Option<Prio> { <$ty<H>>::push_increase(self, i, p) }
        fn q_push_decrease(&mut self, i: Item, p: Prio) -> Option<Prio> { <$ty<H>>::push_decrease(self, i, p) }
        fn q_change_priority(&mut self, i: &Item, p: Prio) -> Option<Prio> { <$ty<H>>::change_priority(self, i, p) }
        fn q_change_priority_b(&mut self, k: &Key, p: Prio) -> Option<Prio> { <$ty<H>>::change_priority(self, k, p) }
        fn q_change_priority_by<F: FnOnce(&mut Prio)>(&mut self, i: &Item, f: F) -> bool { <$ty<H>>::change_priority_by(self, i, f) }
        fn q_change_priority_by_b<F: FnOnce(&mut Prio)>(&mut self, k: &Key, f: F) -> bool { <$ty<H>>::change_priority_by(self, k, f) }
        fn q_remove(&mut self, i: &Item) -> Option<(Item, Prio)> { <$ty<H>>::remove(self, i) }
        fn q_remove_b(&mut self, k: &Key) -> Option<(Item, Prio)> { <$ty<H>>::remove(self, k) }
        fn q_get(&self, i: &Item) -> Option<(&Item, &Prio)> { <$ty<H>>::get(self, i) }
        fn q_get_b(&self, k: &Key) -> Option<(&Item, &Prio)> { <$ty<H>>::get(self, k) }
        fn q_get_priority(&self, i: &Item) -> Option<&Prio> { <$ty<H>>::get_priority(self, i) }
        fn q_get_priority_b(&self, k: &Key) -> Option<&Prio> { <$ty<H>>::get_priority(self, k) }
        fn q_get_mut(&mut self, i: &Item) -> Option<(&mut Item, &Prio)> { <$ty<H>>::get_mut(self, i) }
        fn q_get_mut_b(&mut self, k: &Key) -> Option<(&mut Item, &Prio)> { <$ty<H>>::get_mut(self, k) }
        fn q_retain<F: FnMut(&Item, &Prio) -> bool>(&mut self, f: F) { <$ty<H>>::retain(self, f) }
        fn q_retain_mut<F: FnMut(&mut Item, &mut Prio) -> bool>(&mut self, f: F) { <$ty<H>>::retain_mut(self, f) }
        fn q_extend<T: IntoIterator<Item = (Item, Prio)>>(&mut self, it: T) { <$ty<H> as Extend<(Item, Prio)>>::extend(self, it) }
        fn q_append(&mut self, o: &mut Self) { <$ty<H>>::append(self, o) }
        fn q_clear(&mut self) { <$ty<H>>::clear(self) }
        fn q_reserve(&mut self, a: usize) { <$ty<H>>::reserve(self, a) }
        fn q_reserve_exact(&mut self, a: usize) { <$ty<H>>::reserve_exact(self, a) }
        fn q_try_reserve(&mut self, a: usize) -> Result<(), TryReserveError> { <$ty<H>>::try_reserve(self, a) }
        fn q_try_reserve_exact(&mut self, a: usize) -> Result<(), TryReserveError> { <$ty<H>>::try_reserve_exact(self, a) }
        fn q_shrink_to_fit(&mut self) { <$ty<H>>::shrink_to_fit(self) }
        fn q_eq(&self, o: &Self) -> bool { self == o }
        fn q_ne(&self, o: &Self) -> bool { self != o }
        fn q_into_vec(self) -> Vec<Item> { <$ty<H>>::into_vec(self) }
        fn q_iter<'a>(&'a self) -> Box<dyn DynIter<RefPair<'a>> + 'a> { Box::new(DIter(Caps(<$ty<H>>::iter(self)))) }
        fn q_iter_ref<'a>(&'a self) -> Box<dyn DynIter<RefPair<'a>> + 'a> { Box::new(DIter(Caps(<&'a $ty<H> as IntoIterator>::into_iter(self)))) }
        fn q_drain<'a>(&'a mut self) -> Box<dyn DynIter<OwnPair> + 'a> { Box::new(DDrain(Caps(<$ty<H>>::drain(self)))) }
        fn q_into_iter(self) -> Box<dyn DynIter<OwnPair>> { Box::new(DIntoIter(Caps(<$ty<H> as IntoIterator>::into_iter(self)))) }
        fn q_debug(&self) -> String { format!("{:?}", self) }
        fn q_clone_from(&mut self, src: &Self) { Clone::clone_from(self, src) }
        fn q_to_json(&self) -> Result<String, String> { serde_json::to_string(self).map_err(|e| e.to_string()) }
        fn q_to_value(&self) -> Result<serde_json::Value, String> { serde_json::to_value(self).map_err(|e| e.to_string()) }
        fn q_from_json(s: &str) -> Result<Self, String> { serde_json::from_str::<$ty<H>>(s).map_err(|e| e.to_string()) }
        fn q_from_values(v: Vec<serde_json::Value>, with_hint: bool) -> Result<Self, String> {
            use serde::de::value::SeqDeserializer;
            use serde::Deserialize;
            if with_hint {
                let d: SeqDeserializer<_, serde_json::Error> = SeqDeserializer::new(v.into_iter());
                <$ty<H>>::deserialize(d).map_err(|e| e.to_string())
            } else {
                let d: SeqDeserializer<_, serde_json::Error> = SeqDeserializer::new(NoHint(v.into_iter()));
                <$ty<H>>::deserialize(d).map_err(|e| e.to_string())
            }
        }
        fn q_adaptor_lens(&self, j: usize, out: &mut AdOut) {
            // every entry: (label, reported len(), number of elements really yielded)
            macro_rules! ad {
                ($label:expr, $mk:expr) => {{
                    let r = std::panic::catch_unwind(std::panic::AssertUnwindSafe(|| {
                        let a = $mk;
                        let l = ExactSizeIterator::len(&a);
                        let c = a.count();
                        (l, c)
                    }));
                    let r = r.map_err(|e| $crate::ops::panic_text(&e));
                    out.push((format!("{}(j={}).len()", $label, j), r));
                }};
            }
            ad!("iter.take", self.iter().take(j));
            ad!("iter.skip", self.iter().skip(j));
            ad!("iter.zip", self.iter().zip(0..j));
            ad!("iter.peekable", self.iter().peekable());
            ad!("iter.rev", self.iter().rev());
            ad!("iter.enumerate", self.iter().enumerate());
            ad!("iter.step_by", self.iter().step_by(j + 1));
            ad!("iter.rev.take", self.iter().rev().take(j));
            ad!("iter.skip.rev", self.iter().skip(j).rev());
            ad!("(&q).into_iter.take", self.into_iter().take(j));
            ad!("clone.into_iter.take", self.clone().into_iter().take(j));
            ad!("clone.into_iter.skip", self.clone().into_iter().skip(j));
            ad!("clone.into_iter.zip", self.clone().into_iter().zip(0..j));
            ad!("clone.into_iter.peekable", self.clone().into_iter().peekable());
            ad!("clone.into_iter.rev", self.clone().into_iter().rev());
            ad!("clone.into_iter.enumerate", self.clone().into_iter().enumerate());
            {
                let mut c = self.clone();
                ad!("drain.take", c.drain().take(j));
                let mut c = self.clone();
                ad!("drain.skip", c.drain().skip(j));
                let mut c = self.clone();
                ad!("drain.zip", c.drain().zip(0..j));
                let mut c = self.clone();
                ad!("drain.peekable", c.drain().peekable());
                let mut c = self.clone();
                ad!("drain.rev", c.drain().rev());
                let mut c = self.clone();
                ad!("drain.enumerate", c.drain().enumerate());
            }
            self.kind_adaptor_lens(j, out);
        }
        fn q_adaptor_lens_mut(&self, j: usize, out: &mut AdOut) {
            self.kind_adaptor_lens_mut(j, out);
        }
    };
}

/// kind-specific part of the adaptor matrix
pub trait KindAdaptors {
    fn kind_adaptor_lens(&self, j: usize, out: &mut AdOut);
    fn kind_adaptor_lens_mut(&self, j: usize, out: &mut AdOut);
}

impl<H: HB> KindAdaptors for PQ<H> {
    fn kind_adaptor_lens(&self, _j: usize, _out: &mut AdOut) {
        // PriorityQueue::into_sorted_iter and iter_mut declare neither ExactSizeIterator nor
        // DoubleEndedIterator: nothing to compose.
    }
    fn kind_adaptor_lens_mut(&self, _j: usize, _out: &mut AdOut) {}
}
impl<H: HB> KindAdaptors for DPQ<H> {
    fn kind_adaptor_lens(&self, j: usize, out: &mut AdOut) {
            macro_rules! ad {
            ($label:expr, $mk:expr) => {{
                let r = std::panic::catch_unwind(std::panic::AssertUnwindSafe(|| {
                    let a = $mk;
                    let l = ExactSizeIterator::len(&a);
                    let c = a.count();
                    (l, c)
                }));
                let r = r.map_err(|e| $crate::ops::panic_text(&e));
                out.push((format!("{}(j={}).len()", $label, j), r));
            }};
        }
        ad!("sorted.take", self.clone().into_sorted_iter().take(j));
        ad!("sorted.skip", self.clone().into_sorted_iter().skip(j));
        ad!("sorted.zip", self.clone().into_sorted_iter().zip(0..j));
        ad!("sorted.peekable", self.clone().into_sorted_iter().peekable());
        ad!("sorted.rev", self.clone().into_sorted_iter().rev());
        ad!("sorted.enumerate", self.clone().into_sorted_iter().enumerate());
        ad!("sorted.rev.take", self.clone().into_sorted_iter().rev().take(j));
    }
    fn kind_adaptor_lens_mut(&self, j: usize, out: &mut AdOut) {
            macro_rules! ad {
            ($label:expr, $mk:expr) => {{
                let r = std::panic::catch_unwind(std::panic::AssertUnwindSafe(|| {
                    let a = $mk;
                    let l = ExactSizeIterator::len(&a);
                    let c = a.count();
                    (l, c)
                }));
                let r = r.map_err(|e| $crate::ops::panic_text(&e));
                out.push((format!("{}(j={}).len()", $label, j), r));
            }};
        }
        {
            let mut c = self.clone();
            ad!("iter_mut.take", c.iter_mut().take(j));
            let mut c = self.clone();
            ad!("iter_mut.skip", c.iter_mut().skip(j));
            let mut c = self.clone();
            ad!("iter_mut.zip", c.iter_mut().zip(0..j));
            let mut c = self.clone();
            ad!("iter_mut.peekable", c.iter_mut().peekable());
            let mut c = self.clone();
            ad!("iter_mut.rev", c.iter_mut().rev());
            let mut c = self.clone();
            ad!("iter_mut.enumerate", c.iter_mut().enumerate());
            let mut c = self.clone();
            ad!("(&mut q).into_iter.rev.take", (&mut c).into_iter().rev().take(j));
        }
    }
}

impl<H: HB> QueueLike for PQ<H> {
    type H = H;
    type Other = DPQ<H>;
    const DOUBLE: bool = false;
    const KIND: &'static str = "PriorityQueue";
    common_impl!(PQ);
    fn q_peek_hi(&self) -> Option<(&Item, &Prio)> { self.peek() }
    fn q_peek_lo(&self) -> Option<(&Item, &Prio)> { unreachable!("PriorityQueue has no low end") }
    fn q_peek_hi_mut(&mut self) -> Option<(&mut Item, &Prio)> { self.peek_mut() }
    fn q_peek_lo_mut(&mut self) -> Option<(&mut Item, &Prio)> { unreachable!() }
    fn q_pop_hi(&mut self) -> Option<(Item, Prio)> { self.pop() }
    fn q_pop_lo(&mut self) -> Option<(Item, Prio)> { unreachable!() }
    fn q_pop_hi_if<F: FnOnce(&mut Item, &mut Prio) -> bool>(&mut self, f: F) -> Option<(Item, Prio)> { self.pop_if(f) }
    fn q_pop_lo_if<F: FnOnce(&mut Item, &mut Prio) -> bool>(&mut self, _f: F) -> Option<(Item, Prio)> { unreachable!() }
    fn q_into_desc_vec(self) -> Vec<Item> { self.into_sorted_vec() }
    fn q_into_asc_vec(self) -> Vec<Item> { unreachable!() }
    fn q_iter_mut<'a>(&'a mut self) -> Box<dyn DynIter<MutPair<'a>> + 'a> { Box::new(DPqIterMut(Caps(self.iter_mut()))) }
    fn q_iter_mut_ref<'a>(&'a mut self) -> Box<dyn DynIter<MutPair<'a>> + 'a> { Box::new(DPqIterMut(Caps(<&'a mut PQ<H> as IntoIterator>::into_iter(self)))) }
    fn q_into_sorted_iter(self) -> Box<dyn DynIter<OwnPair>> { Box::new(DPqSorted(Caps(self.into_sorted_iter()))) }
}

impl<H: HB> QueueLike for DPQ<H> {
    type H = H;
    type Other = PQ<H>;
    const DOUBLE: bool = true;
    const KIND: &'static str = "DoublePriorityQueue";
    common_impl!(DPQ);
    fn q_peek_hi(&self) -> Option<(&Item, &Prio)> { self.peek_max() }
    fn q_peek_lo(&self) -> Option<(&Item, &Prio)> { self.peek_min() }
    fn q_peek_hi_mut(&mut self) -> Option<(&mut Item, &Prio)> { self.peek_max_mut() }
    fn q_peek_lo_mut(&mut self) -> Option<(&mut Item, &Prio)> { self.peek_min_mut() }
    fn q_pop_hi(&mut self) -> Option<(Item, Prio)> { self.pop_max() }
    fn q_pop_lo(&mut self) -> Option<(Item, Prio)> { self.pop_min() }
    fn q_pop_hi_if<F: FnOnce(&mut Item, &mut Prio) -> bool>(&mut self, f: F) -> Option<(Item, Prio)> { self.pop_max_if(f) }
    fn q_pop_lo_if<F: FnOnce(&mut Item, &mut Prio) -> bool>(&mut self, f: F) -> Option<(Item, Prio)> { self.pop_min_if(f) }
    fn q_into_desc_vec(self) -> Vec<Item> { self.into_descending_sorted_vec() }
    fn q_into_asc_vec(self) -> Vec<Item> { self.into_ascending_sorted_vec() }
    fn q_iter_mut<'a>(&'a mut self) -> Box<dyn DynIter<MutPair<'a>> + 'a> { Box::new(DDpqIterMut(Caps(self.iter_mut()))) }
    fn q_iter_mut_ref<'a>(&'a mut self) -> Box<dyn DynIter<MutPair<'a>> + 'a> { Box::new(DDpqIterMut(Caps(<&'a mut DPQ<H> as IntoIterator>::into_iter(self)))) }
    fn q_into_sorted_iter(self) -> Box<dyn DynIter<OwnPair>> { Box::new(DDpqSorted(Caps(self.into_sorted_iter()))) }
}

/// Either kind, for explorers whose transition system includes the conversions.
#[derive(Clone, Debug)]
pub enum AnyQ<H: HB> {
    P(PQ<H>),
    D(DPQ<H>),
}

impl<H: HB> AnyQ<H> {
    pub fn double(&self) -> bool {
        matches!(self, AnyQ::D(_))
    }
    pub fn kind(&self) -> &'static str {
        match self {
            AnyQ::P(_) => PQ::<H>::KIND,
            AnyQ::D(_) => DPQ::<H>::KIND,
        }
    }
    pub fn snap(&self) -> Snap {
        match self {
            AnyQ::P(q) => q.snap(),
            AnyQ::D(q) => q.snap(),
        }
    }
    pub fn convert(self) -> AnyQ<H> {
        match self {
            AnyQ::P(q) => AnyQ::D(q.into()),
            AnyQ::D(q) => AnyQ::P(q.into()),
        }
    }
}

#[macro_export]
macro_rules! with_q {
    ($any:expr, $q:ident => $body:expr) => {
        match $any {
            $crate::queue::AnyQ::P($q) => $body,
            $crate::queue::AnyQ::D($q) => $body,
        }
    };
}

pub struct _Ph<H>(PhantomData<H>);
