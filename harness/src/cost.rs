//! C05: the oracle is the number of `Ord::cmp` calls (every comparison of a priority goes through
//! the harness's `Prio::cmp`).
//!  (a) exhaustive small scope: the maximum over ALL transitions of the closed/seeded explorations
//!      is taken per (operation, kind, n) and compared with A*ceil(log2(n+1))+B (or C*n+D).
//!  (b) a fully enumerated grid of sizes x patterns x operations x target positions x new priorities
//!      on large queues, where "rebuild instead of re-sift" or "insertion instead of Floyd" shows.

use crate::explore::*;
use crate::ops::*;
use crate::post::par_each;
use crate::props::*;
use crate::queue::*;
use crate::types::*;
use serde_json::{json, Value};
use std::collections::BTreeMap;
use std::sync::atomic::Ordering as AO;
use std::sync::Mutex;
use std::time::Instant;

pub fn ceil_log2(n: usize) -> u64 {
    // ceil(log2(n+1)) = number of levels of a heap of n elements
    (usize::BITS - n.leading_zeros()) as u64
}

/// (A, B): single-element operations must stay within A*levels + B comparisons.
pub fn single_bound(double: bool) -> (u64, u64) {
    if double {
        (6, 12)
    } else {
        (3, 6)
    }
}
/// (C, D): bulk operations must stay within C*n + D comparisons.
pub fn bulk_bound(double: bool) -> (u64, u64) {
    if double {
        (6, 16)
    } else {
        (4, 12)
    }
}

pub const SINGLE_OPS: [&str; 10] = ["push", "push_increase", "push_decrease", "change_priority", "change_priority_by", "remove", "pop_hi", "pop_min", "pop_hi_if", "pop_min_if"];
pub const BULK_OPS: [&str; 5] = ["retain", "retain_mut", "iter_mut", "append", "convert"];

/// The bound a transition named `op` on a queue of `n` elements must respect (None: not bounded by C05).
pub fn small_scope_bound(op: &str, double: bool, n: usize) -> Option<(&'static str, u64)> {
    if SINGLE_OPS.contains(&op) {
        let (a, b) = single_bound(double);
        Some(("single", a * ceil_log2(n) + b))
    } else if BULK_OPS.contains(&op) {
        let (cc, d) = bulk_bound(double);
        // n = size before the call; append adds at most 3 more elements in the small scope
        Some(("bulk", cc * (n as u64 + 3) + d))
    } else if matches!(op, "clear" | "drain" | "clone" | "reserve" | "reserve_exact" | "try_reserve" | "try_reserve_exact" | "shrink_to_fit" | "get_mut") {
        Some(("zero", 0))
    } else {
        None
    }
}

/// Message for a transition that exceeds its bound (used by the explorer and by replay).
pub fn small_scope_violation(op: &str, double: bool, n: usize, cmps: u64) -> Option<String> {
    let (kind, bound) = small_scope_bound(op, double, n)?;
    (cmps > bound).then(|| format!("{op} on a {} of {n} elements made {cmps} comparisons; the {kind} bound is {bound}", if double { "DoublePriorityQueue" } else { "PriorityQueue" }))
}

fn check_small_scope(costs: &BTreeMap<(String, bool, usize), u64>) -> Result<Vec<Value>, String> {
    let mut table = vec![];
    for ((op, double, n), &c) in costs {
        let Some((kind, bound)) = small_scope_bound(op.as_str(), *double, *n) else { continue };
        if c > bound {
            return Err(format!(
                "{op} on a {} of {n} elements made {c} comparisons in some explored state; the {kind} bound is {bound}",
                if *double { "DoublePriorityQueue" } else { "PriorityQueue" }
            ));
        }
        table.push(json!({"op": op, "double": double, "n": n, "max_cmps": c, "bound": bound}));
    }
    Ok(table)
}

// ---------------------------------------------------------------------------------------------
// scaled grid

pub const PATTERNS: [&str; 5] = ["ascending", "descending", "constant", "lcg", "organ-pipe"];

fn pattern(n: usize, pat: usize) -> Vec<i32> {
    match pat {
        0 => (0..n).map(|i| i as i32).collect(),
        1 => (0..n).map(|i| (n - i) as i32).collect(),
        2 => vec![7; n],
        3 => {
            let mut x: u64 = 0x2545F4914F6CDD1D;
            (0..n)
                .map(|_| {
                    x = x.wrapping_mul(6364136223846793005).wrapping_add(1442695040888963407);
                    ((x >> 33) % (n as u64 + 1)) as i32
                })
                .collect()
        }
        _ => (0..n).map(|i| i.min(n - 1 - i) as i32).collect(),
    }
}

struct JobOut {
    measurements: u64,
    /// (op label, max comparisons)
    max_single: BTreeMap<String, u64>,
    bulk: BTreeMap<String, u64>,
}

fn grid_job<Q: QueueLike>(n: usize, pat: usize) -> Result<JobOut, String> {
    let prios = pattern(n, pat);
    let (a, b) = single_bound(Q::DOUBLE);
    let (cc, d) = bulk_bound(Q::DOUBLE);
    let mut out = JobOut { measurements: 0, max_single: BTreeMap::new(), bulk: BTreeMap::new() };
    let mk_vec = |off: u32| -> Vec<(Item, Prio)> { prios.iter().enumerate().map(|(i, &p)| (Item::new(off + i as u32, 0), Prio::new(p))).collect() };
    let gmin = *prios.iter().min().unwrap() - 1;
    let gmax = *prios.iter().max().unwrap() + 1;

    macro_rules! bulk {
        ($label:expr, $size:expr, $body:expr) => {{
            reset_calls();
            let r = $body;
            let c = cmp_count();
            out.measurements += 1;
            let bound = cc * ($size as u64) + d;
            if c > bound {
                return Err(format!("{} with n={} ({}) made {c} comparisons; the linear bound is {bound}", $label, $size, PATTERNS[pat]));
            }
            out.bulk.insert($label.to_string(), c);
            r
        }};
    }
    let mut q: Q = bulk!("from_vec", n, Q::q_from_vec(mk_vec(0)));
    let _q2: Q = bulk!("from_iter", n, Q::q_from_iter(mk_vec(0)));
    drop(_q2);

    macro_rules! single {
        ($label:expr, $body:expr) => {{
            let len = q.q_len();
            reset_calls();
            let r = $body;
            let c = cmp_count();
            out.measurements += 1;
            let bound = a * ceil_log2(len.max(q.q_len())) + b;
            if c > bound {
                return Err(format!("{} on a queue of {len} ({}) made {c} comparisons; the logarithmic bound is {bound}", $label, PATTERNS[pat]));
            }
            let e = out.max_single.entry($label.to_string()).or_insert(0);
            *e = (*e).max(c);
            r
        }};
    }
    macro_rules! zero {
        ($label:expr, $max:expr, $body:expr) => {{
            reset_calls();
            let _ = $body;
            let c = cmp_count();
            out.measurements += 1;
            if c > $max {
                return Err(format!("{} on a queue of {} made {c} comparisons; at most {} allowed", $label, q.q_len(), $max));
            }
        }};
    }
    zero!("peek (high end)", if Q::DOUBLE { 1 } else { 0 }, q.q_peek_hi().map(|x| x.1.v));
    if Q::DOUBLE {
        zero!("peek_min", 0, q.q_peek_lo().map(|x| x.1.v));
    }
    zero!("len/is_empty/capacity", 0, (q.q_len(), q.q_is_empty(), q.q_capacity()));
    zero!("get", 0, q.q_get_b(&Key(0)).map(|x| x.1.v));
    zero!("get_priority", 0, q.q_get_priority_b(&Key((n / 2) as u32)).map(|x| x.v));
    zero!("get_mut", 0, q.q_get_mut_b(&Key((n - 1) as u32)).map(|x| x.1.v));
    zero!("get (absent)", 0, q.q_get_b(&Key(u32::MAX)).is_some());

    // target positions: root, its children, last, first leaf, first and last position of every level
    let mut targets: Vec<usize> = vec![0, 1, 2, n - 1, n / 2];
    let mut l = 0;
    while (1usize << l) - 1 < n {
        targets.push((1usize << l) - 1);
        targets.push(((1usize << (l + 1)) - 2).min(n - 1));
        l += 1;
    }
    targets.retain(|&t| t < n);
    targets.sort();
    targets.dedup();
    let mut fresh = 3_000_000_000u32;
    // remove (and re-insertion) of the element that sits at an exact heap position right now:
    // no earlier operation of the block moves it, so the last slots, the first leaf and the
    // ends of every level are really the addressed positions
    for round in 0..2 {
        let mut exact: Vec<usize> = targets.clone();
        exact.extend([n.saturating_sub(2), n.saturating_sub(3), n / 2 + 1, n / 4, (3 * n) / 4]);
        for &t in &exact {
            let (key, cur, pos) = {
                let s = q.snap();
                // round 1 counts from the end, so that every run of trailing slots is addressed
                let t = if round == 0 { t.min(s.heap.len() - 1) } else { s.heap.len() - 1 - t.min(s.heap.len() - 1) };
                let slot = s.heap[t];
                (s.slots[slot].0, s.slots[slot].2, t)
            };
            let len = q.q_len();
            reset_calls();
            let removed = q.q_remove_b(&Key(key));
            let c = cmp_count();
            out.measurements += 1;
            if removed.is_none() {
                return Err(format!("remove of the element at position {pos} returned None"));
            }
            let bound = a * ceil_log2(len) + b;
            if c > bound {
                return Err(format!("remove of the element at heap position {pos} of {len} ({}) made {c} comparisons; the logarithmic bound is {bound}", PATTERNS[pat]));
            }
            let e = out.max_single.entry("remove (exact heap position)".to_string()).or_insert(0);
            *e = (*e).max(c);
            single!("push (re-insert removed item)", q.q_push(Item::new(key, 0), Prio::new(cur)));
        }
    }
    for &t in &targets {
        for (pi, &np) in [gmin, gmax, i32::MIN / 2 /* placeholder for "unchanged" */].iter().enumerate() {
            // the element at heap position t right now
            let (key, cur) = {
                let s = q.snap();
                let t = t.min(s.heap.len() - 1);
                let slot = s.heap[t];
                (s.slots[slot].0, s.slots[slot].2)
            };
            let np = if pi == 2 { cur } else { np };
            single!("change_priority", q.q_change_priority_b(&Key(key), Prio::new(np)));
            let (key, _) = {
                let s = q.snap();
                let t = t.min(s.heap.len() - 1);
                (s.slots[s.heap[t]].0, 0)
            };
            single!("change_priority_by", q.q_change_priority_by_b(&Key(key), |p| *p = Prio::new(np)));
            single!("push (present item)", q.q_push(Item::new(key, 0), Prio::new(np.wrapping_add(1))));
            single!("push_increase (present item)", q.q_push_increase(Item::new(key, 0), Prio::new(gmax + 2)));
            single!("push_decrease (present item)", q.q_push_decrease(Item::new(key, 0), Prio::new(gmin - 2)));
            let removed = single!("remove", q.q_remove_b(&Key(key)));
            if removed.is_none() {
                return Err(format!("remove of the element at position {t} returned None"));
            }
            fresh += 1;
            single!("push (new item)", q.q_push(Item::new(fresh, 0), Prio::new(np)));
            single!("pop (high end)", q.q_pop_hi());
            fresh += 1;
            single!("push_increase (new item)", q.q_push_increase(Item::new(fresh, 0), Prio::new(np)));
            single!("pop_if true", q.q_pop_hi_if(|_, _| true));
            fresh += 1;
            single!("push_decrease (new item)", q.q_push_decrease(Item::new(fresh, 0), Prio::new(np)));
            single!("pop_if false + write", q.q_pop_hi_if(|_, p| {
                *p = Prio::new(gmin - 3);
                false
            }));
            if Q::DOUBLE {
                single!("pop_min", q.q_pop_lo());
                fresh += 1;
                single!("push (new item)", q.q_push(Item::new(fresh, 0), Prio::new(cur)));
                single!("pop_min_if false + write", q.q_pop_lo_if(|_, p| {
                    *p = Prio::new(gmax + 3);
                    false
                }));
                single!("pop_min_if true", q.q_pop_lo_if(|_, _| true));
                fresh += 1;
                single!("push (new item)", q.q_push(Item::new(fresh, 0), Prio::new(gmin)));
            }
        }
    }
    // bulk operations that re-establish order
    {
        // retain rejecting the upper / lower half of the priorities (interior nodes resp. leaves)
        let mut sorted = prios.clone();
        sorted.sort();
        let median = sorted[n / 2];
        let mut a: Q = Q::q_from_vec(mk_vec(0));
        bulk!("retain (reject the upper half)", n, a.q_retain(|_, p| p.v < median));
        let mut a: Q = Q::q_from_vec(mk_vec(0));
        bulk!("retain (reject the lower half)", n, a.q_retain(|_, p| p.v >= median));
        let mut a: Q = Q::q_from_vec(mk_vec(0));
        bulk!("retain_mut (reject the upper half)", n, a.q_retain_mut(|_, p| p.v < median));
        let mut a: Q = Q::q_from_vec(mk_vec(0));
        bulk!("retain (reject all but one)", n, a.q_retain(|i, _| i.key == 0));
    }
    let len = q.q_len();
    bulk!("retain (keep every other)", len, q.q_retain(|i, _| i.key % 2 == 0));
    let len = q.q_len();
    bulk!("retain_mut (mirror priorities)", len, q.q_retain_mut(|_, p| {
        *p = Prio::new(-p.v);
        true
    }));
    let len = q.q_len();
    bulk!("iter_mut (rewrite all) + drop", len, {
        let mut it = q.q_iter_mut();
        let mut j = 0i32;
        while let Some((_, p)) = it.nx() {
            *p = Prio::new(((j as i64 * 7919) % 1009) as i32);
            j += 1;
        }
        drop(it);
    });
    let mut other = Q::q_from_vec(mk_vec(1_000_000_000));
    let total = q.q_len() + other.q_len();
    bulk!("append", total, q.q_append(&mut other));
    // append with every size ratio and both directions; the appended priorities lie above
    // (below) everything in the receiver, the worst case for element-by-element insertion
    for (label, div, above) in [("append n/2 above", 2usize, true), ("append n/4 above", 4, true), ("append n/2 below", 2, false), ("append n/16 above", 16, true)] {
        for swap in [false, true] {
            let mut a: Q = Q::q_from_vec(mk_vec(0));
            let m = (n / div).max(1);
            let mut b: Q = Q::q_from_vec((0..m).map(|i| (Item::new(2_000_000_000 + i as u32, 0), Prio::new(if above { gmax + 1 + i as i32 } else { gmin - 1 - i as i32 }))).collect());
            let total = n + m;
            if swap {
                bulk!(format!("{label} (small.append(big))"), total, b.q_append(&mut a));
            } else {
                bulk!(format!("{label} (big.append(small))"), total, a.q_append(&mut b));
            }
        }
    }
    // the same with capacity left behind by the queues' earlier life (reserve / grown and popped
    // down): the cost class of append may not depend on it
    for (label, m_of, above) in [("append n (roomy receiver)", n, true), ("append n/2 (roomy receiver)", (n / 2).max(1), true), ("append n (roomy receiver, below)", n, false)] {
        for history in 0..3 {
            let mut a: Q = Q::q_from_vec(mk_vec(0));
            let m = m_of;
            let mut b: Q = Q::q_from_vec((0..m).map(|i| (Item::new(2_000_000_000 + i as u32, 0), Prio::new(if above { gmax + 1 + i as i32 } else { gmin - 1 - i as i32 }))).collect());
            match history {
                0 => a.q_reserve(2 * n + 8),
                1 => {
                    // once three times as long, then popped down to n
                    for i in 0..(2 * n) {
                        a.q_push(Item::new(1_500_000_000 + i as u32, 0), Prio::new(gmax + 1));
                    }
                    for _ in 0..(2 * n) {
                        a.q_pop_hi();
                    }
                }
                _ => {
                    a.q_reserve(2 * n + 8);
                    b.q_reserve(4 * n + 8);
                }
            }
            let total = a.q_len() + m;
            bulk!(format!("{label}, history {history}"), total, a.q_append(&mut b));
        }
    }
    // conversions of queues that still have the layout their construction gave them (a max-heap
    // vector in decreasing order is the worst case for growing the other heap position by position)
    {
        let a: Q = Q::q_from_vec(mk_vec(0));
        let _o: Q::Other = bulk!("conversion of a freshly built queue", n, a.q_into_other());
        let mut b: Q = Q::q_new();
        for (i, &p) in prios.iter().enumerate() {
            b.q_push(Item::new(i as u32, 0), Prio::new(p));
        }
        let _o: Q::Other = bulk!("conversion of a queue filled by pushes", n, b.q_into_other());
        let mut sorted_desc = prios.clone();
        sorted_desc.sort_by(|x, y| y.cmp(x));
        let mut c: Q = Q::q_new();
        for (i, &p) in sorted_desc.iter().enumerate() {
            c.q_push(Item::new(i as u32, 0), Prio::new(p));
        }
        let _o: Q::Other = bulk!("conversion of a queue filled by decreasing pushes", n, c.q_into_other());
        let mut d: Q = Q::q_new();
        for (i, &p) in sorted_desc.iter().rev().enumerate() {
            d.q_push(Item::new(i as u32, 0), Prio::new(p));
        }
        let _o: Q::Other = bulk!("conversion of a queue filled by increasing pushes", n, d.q_into_other());
    }
    let len = q.q_len();
    let o: Q::Other = bulk!("conversion", len, q.q_into_other());
    let len = o.q_len();
    let back: Q = {
        // measured with the OTHER kind's bound as well: use the larger one
        reset_calls();
        let r: Q = o.q_into_other();
        let c = cmp_count();
        out.measurements += 1;
        let (c2, d2) = bulk_bound(true);
        if c > c2 * len as u64 + d2 {
            return Err(format!("conversion back with n={len} made {c} comparisons"));
        }
        out.bulk.insert("conversion back".into(), c);
        r
    };
    out.bulk.insert("final_len".into(), back.q_len() as u64);
    Ok(out)
}

pub fn grid_case(n: usize, pat: usize, double: bool, detail: String) -> Case {
    Case {
        prop: "C05".into(),
        hasher: FnvBuild::NAME.into(),
        double,
        root: Root::New,
        ops: vec![],
        last: None,
        probe: Some("cost-grid".into()),
        detail,
        universe: vec![],
        aux: None,
        trail: vec![],
        params: vec![n as u64, pat as u64],
    }
}

pub fn replay_grid(c: &Case) -> Result<(), String> {
    let (n, pat) = (c.params[0] as usize, c.params[1] as usize);
    if c.double {
        grid_job::<DPQ<FnvBuild>>(n, pat).map(|_| ())
    } else {
        grid_job::<PQ<FnvBuild>>(n, pat).map(|_| ())
    }
}

pub fn run_c05(tier: Tier) -> Outcome {
    type H = FnvBuild;
    let prop = "C05";
    let mut out = Outcome::new();
    let q = tier == Tier::Quick;
    // (a) exhaustive small scope
    let alpha = A_CORE | A_BULK | A_CLONE;
    let mut all_costs: BTreeMap<(String, bool, usize), u64> = BTreeMap::new();
    let mut merge = |ex: &Explorer<H>| {
        for (k, v) in ex.stats.costs.lock().unwrap().iter() {
            let e = all_costs.entry(k.clone()).or_insert(0);
            *e = (*e).max(*v);
        }
    };
    {
        let (k, m) = if q { (3u32, 3i32) } else { (4, 3) };
        let prios: Vec<i32> = (0..m).collect();
        let mut cfg = base_cfg(prop, k, &prios, alpha);
        cfg.record_costs = true;
        cfg.deep = false;
        let t0 = Instant::now();
        let mut ex = Explorer::<H>::new(&cfg);
        for p in crate::probes::all_probes::<H>("C05", &cfg.universe()) {
            ex.probes.push(p);
        }
        ex.run_closed();
        out.absorb(&format!("E1 closed ({k} items x {m} priorities): comparison count of every transition; peeks and lookups from every state"), &ex, t0);
        if !out.violations.is_empty() {
            return out;
        }
        merge(&ex);
    }
    let mut fams: Vec<(String, usize, Vec<Root>, Vec<i32>)> = vec![];
    for n in if q { vec![7usize, 8, 9, 10] } else { vec![7, 8, 9, 10, 11, 12, 13, 14] } {
        fams.push((format!("F_bin({n})"), n, f_bin(n), REL_BIN.to_vec()));
    }
    for n in if q { vec![15usize, 16, 17] } else { vec![15, 16, 17, 31, 32, 33] } {
        fams.push((format!("F_seg({n})"), n, f_seg(n), REL_TERN.to_vec()));
    }
    for n in if q { vec![5usize, 6] } else { vec![5, 6, 7, 8] } {
        fams.push((format!("F_perm({n})"), n, f_perm(n), rel_perm(n)));
    }
    for (label, n, seeds, rel) in fams {
        let mut cfg = seeds_cfg(prop, n, &rel, alpha & !(A_EXTEND | A_CLONE));
        cfg.record_costs = true;
        cfg.deep = false;
        let t0 = Instant::now();
        let ex = Explorer::<H>::new(&cfg);
        let mut roots = vec![];
        for d in [false, true] {
            for s in &seeds {
                roots.push((d, s.clone()));
            }
        }
        ex.run(roots, Some(1));
        out.absorb(&format!("E2 {label} depth 1: comparison count of every transition"), &ex, t0);
        merge(&ex);
        if !out.violations.is_empty() {
            return out;
        }
    }
    match check_small_scope(&all_costs) {
        Ok(table) => {
            // keep the evidence small: the per-operation maximum over n, and the full table size
            let mut per_op: BTreeMap<(String, bool), (usize, u64, u64)> = BTreeMap::new();
            for r in &table {
                let k = (r["op"].as_str().unwrap().to_string(), r["double"].as_bool().unwrap());
                let v = (r["n"].as_u64().unwrap() as usize, r["max_cmps"].as_u64().unwrap(), r["bound"].as_u64().unwrap());
                let e = per_op.entry(k).or_insert(v);
                if v.1 * e.2 > e.1 * v.2 {
                    *e = v;
                }
            }
            out.extra.insert("small_scope_rows".into(), json!(table.len()));
            out.extra.insert(
                "small_scope_tightest_per_operation".into(),
                json!(per_op.iter().map(|(k, v)| json!({"op": k.0, "double": k.1, "n": v.0, "max_cmps": v.1, "bound": v.2})).collect::<Vec<_>>()),
            );
        }
        Err(e) => {
            out.violations.push(Case { prop: prop.into(), hasher: H::NAME.into(), double: e.contains("Double"), root: Root::New, ops: vec![], last: None, probe: Some("cost-small-scope".into()), detail: e, universe: vec![], aux: None, trail: vec![], params: vec![] });
            return out;
        }
    }
    // (b) scaled grid
    let top = if q { 16 } else { 20 };
    let mut jobs: Vec<(usize, usize, bool)> = vec![];
    for j in 4..=top {
        for n in [(1usize << j) - 1, 1 << j, (1 << j) + 1] {
            for pat in 0..PATTERNS.len() {
                for d in [false, true] {
                    jobs.push((n, pat, d));
                }
            }
        }
    }
    // big jobs first, for load balance
    jobs.sort_by(|a, b| b.0.cmp(&a.0));
    let t0 = Instant::now();
    let results: Mutex<Vec<(usize, usize, bool, BTreeMap<String, u64>, BTreeMap<String, u64>)>> = Mutex::new(vec![]);
    let (cases, viol) = par_each(jobs.len(), threads(), |i| {
        let (n, pat, d) = jobs[i];
        crate::crash::set_case(|| grid_case(n, pat, d, String::new()));
        let r = std::panic::catch_unwind(|| if d { grid_job::<DPQ<H>>(n, pat) } else { grid_job::<PQ<H>>(n, pat) });
        match r {
            Ok(Ok(o)) => {
                results.lock().unwrap().push((n, pat, d, o.max_single, o.bulk));
                Ok(o.measurements)
            }
            Ok(Err(e)) => Err(grid_case(n, pat, d, e)),
            Err(e) => Err(grid_case(n, pat, d, format!("panicked: {}", panic_text(&e)))),
        }
    });
    let results = results.into_inner().unwrap();
    // flatness: cost/n of each bulk operation at n = 2^8 and at the top of the ladder (reported)
    let mut flat_viol: Option<Case> = None;
    let mut flat_rows = vec![];
    for d in [false, true] {
        for pat in 0..PATTERNS.len() {
            let base = results.iter().find(|r| r.0 == 256 && r.1 == pat && r.2 == d);
            let topr = results.iter().find(|r| r.0 == (1 << top) && r.1 == pat && r.2 == d);
            if let (Some(b), Some(t)) = (base, topr) {
                for (op, &cb) in &b.4 {
                    if op == "final_len" {
                        continue;
                    }
                    let ct = *t.4.get(op).unwrap_or(&0);
                    // sizes the bulk op really ran on scale with n; compare per-element cost
                    let rb = cb as f64 / 256.0;
                    let rt = ct as f64 / (1u64 << top) as f64;
                    flat_rows.push(json!({"op": op, "double": d, "pattern": PATTERNS[pat], "cmps_per_element_at_256": rb, "cmps_per_element_at_top": rt}));
                    // reported, not judged: the per-element constant of a linear algorithm may
                    // legitimately differ between sizes (e.g. which queue append drains); the
                    // verdict is the absolute bound C*n+D checked inside every job
                    let _ = &mut flat_viol;
                }
            }
        }
    }
    let mut maxima: BTreeMap<(String, bool), (usize, u64)> = BTreeMap::new();
    for r in &results {
        for (op, &c) in &r.3 {
            let e = maxima.entry((op.clone(), r.2)).or_insert((r.0, c));
            if c > e.1 {
                *e = (r.0, c);
            }
        }
    }
    let mut viol = viol;
    if let Some(v) = flat_viol {
        viol.push(v);
    }
    absorb_post(
        &mut out,
        &format!("scaled grid: n in {{2^j-1, 2^j, 2^j+1 : j = 4..{top}}} x {} patterns x both kinds; every single-element operation x target positions x new priorities; bulk operations; flatness", PATTERNS.len()),
        cases,
        viol,
        t0,
        json!({
            "jobs": jobs.len(),
            "single_element_bound": "A*ceil(log2(n+1))+B with (A,B) = (3,6) PriorityQueue, (6,12) DoublePriorityQueue",
            "bulk_bound": "C*n+D with (C,D) = (4,12) PriorityQueue, (6,16) DoublePriorityQueue",
            "max_comparisons_per_operation": maxima.iter().map(|(k, v)| json!({"op": k.0, "double": k.1, "at_n": v.0, "max_cmps": v.1})).collect::<Vec<_>>(),
            "flatness_cmps_per_element": flat_rows,
        }),
    );
    out.samples.push(json!(format!("grid job: n={} pattern={} kind=DoublePriorityQueue: every single-element op at {} target positions x 3 new priorities", 1 << top, PATTERNS[3], 2 * top + 5)));
    let _ = AO::Relaxed;
    out
}
