//! State probes: program enumerators that run once on every unique state.

use crate::explore::*;
use crate::ops::*;
use crate::queue::*;
use crate::types::*;
use crate::with_q;

pub fn replay_probe<H: HB>(c: &Case, q: &AnyQ<H>, m: &Model, unordered: bool) -> Result<(), String> {
    let name = c.probe.clone().unwrap_or_default();
    match name.as_str() {
        "extend-differential" => {
            if let Some(Op::Extend(seq, _)) = &c.last {
                return crate::post::extend_differential(q, m, &c.universe, &[seq.clone()], true, &|_| ()).map(|_| ()).map_err(|e| e.1);
            }
        }
        "from_iter-differential" => {
            if let Root::FromIter(seq, _) = &c.root {
                return crate::post::from_iter_differential::<H>(c.double, &c.universe, seq, true).map(|_| ()).map_err(|e| e.1);
            }
        }
        "serde-round-trip" => {
            let cfg = crate::props::base_cfg("C15", c.universe.len() as u32, &[0, 1, 2], A_CORE | A_CLEAR_DRAIN | A_ITER_MUT);
            return with_q!(q, x => crate::c15::round_trip(x, m, &cfg)).map(|_| ());
        }
        "append-pair" | "eq-pair" | "clone_from-pair" => {
            if let Some((d, r, ops)) = &c.aux {
                let (b, _, _) = crate::post::rebuild_state::<H>(*d, r, ops, &c.universe)?;
                return match name.as_str() {
                    "append-pair" => crate::post::append_pair(q, &b, &c.universe),
                    "eq-pair" => crate::post::eq_pair(q, &b),
                    _ => crate::post::clone_from_pair(q, &b, &c.universe),
                };
            }
        }
        _ => {}
    }
    let mut ps = all_probes::<H>(&c.prop, &c.universe);
    if name == "iter_mut-collect-then-write" {
        ps = all_probes::<H>("C08-late-write", &c.universe);
    }
    for p in ps {
        if name == "state-probes" || p.name() == name {
            p.on_state(q, m, unordered)?;
        }
    }
    Ok(())
}

/// The probes a property attaches to its explorers (also used by replay).
pub fn all_probes<H: HB>(prop: &str, universe: &[u32]) -> Vec<Box<dyn Probe<H>>> {
    let prios: Vec<i32> = vec![0, 1, 2];
    match prop {
        "C06" => vec![Box::new(IterPrograms { which: vec![It::Sorted], extra_len: 2, sorted_vecs: true, adaptors: false, full_upto: 12 })],
        "C06d" => vec![Box::new(IterPrograms { which: vec![It::Sorted], extra_len: 2, sorted_vecs: true, adaptors: false, full_upto: 7 })],
        "C13d" => vec![Box::new(IterPrograms { which: vec![It::Iter, It::IntoIter, It::Drain, It::Sorted], extra_len: 1, sorted_vecs: false, adaptors: false, full_upto: 6 })],
        "C09" => vec![Box::new(IterMutPrograms { extra_len: 3, prios, lite: false })],
        "C09m" => vec![Box::new(IterMutPrograms { extra_len: 1, prios, lite: true })],
        "C13m" => vec![Box::new(IterPrograms { which: vec![It::Iter, It::IntoIter, It::Drain, It::Sorted], extra_len: 1, sorted_vecs: false, adaptors: false, full_upto: 12 })],
        "C13" => vec![Box::new(IterPrograms { which: vec![It::Iter, It::IterRef, It::IntoIter, It::Drain, It::Sorted], extra_len: 2, sorted_vecs: false, adaptors: true, full_upto: 12 })],
        "C16" => vec![Box::new(EmptiedLikeFresh { universe: universe.to_vec(), prios })],
        "C11" | "C03" => vec![Box::new(OfferedVsStored { universe: universe.to_vec() })],
        "C07" => vec![Box::new(TaggedBulk)],
        "C05" => vec![Box::new(ZeroCost)],
        "C08" => vec![Box::new(BulkMutationPrograms { universe: universe.to_vec(), prios, all_tables: false })],
        "C08-late-write" => vec![Box::new(LateWrite { universe: universe.to_vec(), prios: prios.clone() })],
        "C08t" => vec![Box::new(BulkMutationPrograms { universe: universe.to_vec(), prios, all_tables: true })],
        "C14" => vec![Box::new(CloneIndependence { universe: universe.to_vec(), prios })],
        "C17" => vec![Box::new(CapacityTwin { universe: universe.to_vec(), prios, huge: true })],
        _ => vec![],
    }
}

#[derive(Clone, Copy, Debug, PartialEq, Eq)]
pub enum It {
    Iter,
    IterRef,
    IntoIter,
    Drain,
    Sorted,
}

/// One call of an iterator program.
#[derive(Clone, Copy, Debug, PartialEq, Eq)]
pub enum St {
    Next,
    Back,
    Nth(usize),
    NthBack(usize),
}

/// What a sorted iterator must yield: `Some(true)` = a current maximum, `Some(false)` = a minimum.
#[derive(Clone, Copy)]
struct SortedSpec {
    front_is_max: bool,
}

/// Drive `it` through `prog` (false = next, true = next_back), checking the iterator contracts.
fn drive<T>(
    what: &str,
    it: &mut dyn DynIter<T>,
    prog: &[St],
    m: &Model,
    conv: &dyn Fn(&T) -> (Pair, usize, usize),
    sorted: Option<SortedSpec>,
    keep: &mut Vec<T>,
    strict_hint: bool,
    order: Option<&[u32]>,
) -> Result<(), String> {
    let n = m.len();
    // DoubleEndedIterator: next takes from the front and next_back from the back of ONE sequence
    let (mut front, mut back_ix) = (0usize, order.map_or(0, |o| o.len()));
    let mut remaining = n;
    let mut yielded: Vec<u32> = vec![];
    let mut addrs: Vec<(usize, usize)> = vec![];
    let check_len = |it: &dyn DynIter<T>, remaining: usize, at: usize| -> Result<(), String> {
        let h = it.hint();
        match it.xlen() {
            Some(l) => {
                if l != remaining {
                    return Err(format!("{what}: len() = {l} before call {at} of {prog:?}, but {remaining} elements remain"));
                }
                if strict_hint && h != (remaining, Some(remaining)) {
                    return Err(format!("{what}: declares ExactSizeIterator but size_hint() = {h:?} with {remaining} elements remaining (call {at} of {prog:?})"));
                }
            }
            None => {
                if h.0 > remaining || h.1.map_or(false, |u| u < remaining) {
                    return Err(format!("{what}: size_hint() = {h:?} is wrong with {remaining} elements remaining"));
                }
            }
        }
        Ok(())
    };
    for (at, &st) in prog.iter().enumerate() {
        check_len(it, remaining, at)?;
        let back = matches!(st, St::Back | St::NthBack(_));
        // nth(k) / nth_back(k): k elements are skipped (they are consumed), then one is yielded
        let skip = match st {
            St::Nth(k) | St::NthBack(k) => k,
            _ => 0,
        };
        let r = match st {
            St::Next => it.nx(),
            St::Nth(k) => it.nth(k),
            St::Back => match it.nb() {
                Some(r) => r,
                None => return Err(format!("{what}: next_back not offered")),
            },
            St::NthBack(k) => match it.nth_back(k) {
                Some(r) => r,
                None => return Err(format!("{what}: nth_back not offered")),
            },
        };
        if skip > 0 {
            let o = order.expect("nth programs need the forward order");
            let gone = skip.min(remaining);
            for _ in 0..gone {
                let k = if back {
                    back_ix -= 1;
                    o[back_ix]
                } else {
                    front += 1;
                    o[front - 1]
                };
                yielded.push(k);
            }
            remaining -= gone;
        }
        match r {
            None => {
                if remaining != 0 {
                    return Err(format!("{what}: program {prog:?} got None at call {at} with {remaining} elements remaining"));
                }
            }
            Some(t) => {
                let (pair, a1, a2) = conv(&t);
                if remaining == 0 {
                    return Err(format!("{what}: program {prog:?} yielded {pair:?} at call {at} after exhaustion"));
                }
                if yielded.contains(&pair.0) {
                    return Err(format!("{what}: program {prog:?} yielded item {} twice (or after skipping it)", pair.0));
                }
                if a1 != 0 && addrs.iter().any(|x| x.0 == a1 || x.1 == a2) {
                    return Err(format!("{what}: program {prog:?} yielded the same element twice (address {a1:#x})"));
                }
                if m.get(&pair.0) != Some(&(pair.1, pair.2)) {
                    return Err(format!("{what}: yielded {pair:?}, the map holds {:?}", m.get(&pair.0)));
                }
                if let Some(sp) = sorted {
                    let rest = m.iter().filter(|(k, _)| !yielded.contains(k)).map(|(_, v)| v.1);
                    let want_max = sp.front_is_max != back;
                    let ext = if want_max { rest.max() } else { rest.min() }.unwrap();
                    if pair.2 != ext {
                        return Err(format!(
                            "{what}: program {prog:?} call {at} ({st:?}) yielded priority {} but the {} of what remains is {ext}",
                            pair.2,
                            if want_max { "maximum" } else { "minimum" }
                        ));
                    }
                }
                if let Some(o) = order {
                    let want = if back {
                        back_ix -= 1;
                        o[back_ix]
                    } else {
                        front += 1;
                        o[front - 1]
                    };
                    if want != pair.0 {
                        return Err(format!(
                            "{what}: program {prog:?} call {at} ({st:?}) yielded item {} but the {} remaining element of the forward order {o:?} is item {want}",
                            pair.0,
                            if back { "last" } else { "first" }
                        ));
                    }
                }
                yielded.push(pair.0);
                addrs.push((a1, a2));
                remaining -= 1;
                keep.push(t);
            }
        }
    }
    check_len(it, remaining, prog.len())?;
    Ok(())
}

fn programs(len: usize, back: bool) -> Vec<Vec<St>> {
    programs_upto(len, back, 12)
}

/// all 2^len programs up to `full_upto` calls, a structured family beyond
fn programs_upto(len: usize, back: bool, full_upto: usize) -> Vec<Vec<St>> {
    if !back {
        return vec![vec![St::Next; len]];
    }
    if len > full_upto {
        // deep queues: a structured family instead of all 2^len programs: j calls from one end
        // then the rest from the other (every j, both ways), alternations with every period
        let mut out: Vec<Vec<St>> = vec![];
        for j in 0..=len {
            out.push((0..len).map(|i| if i < j { St::Back } else { St::Next }).collect());
            out.push((0..len).map(|i| if i < j { St::Next } else { St::Back }).collect());
        }
        for period in 1..=4 {
            out.push((0..len).map(|i| if (i / period) % 2 == 0 { St::Back } else { St::Next }).collect());
            out.push((0..len).map(|i| if (i / period) % 2 == 0 { St::Next } else { St::Back }).collect());
        }
        // one call from the back, k from the front, again one from the back ...
        for k in 2..=5 {
            out.push((0..len).map(|i| if i % (k + 1) == 0 { St::Back } else { St::Next }).collect());
            out.push((0..len).map(|i| if i % (k + 1) == 0 { St::Next } else { St::Back }).collect());
        }
        out.sort_by_key(|p| p.iter().map(|s| *s == St::Back).collect::<Vec<_>>());
        out.dedup();
        return out;
    }
    (0..(1u32 << len)).map(|x| (0..len).map(|i| if x >> i & 1 == 1 { St::Back } else { St::Next }).collect()).collect()
}

/// programs that also use nth / nth_back: every prefix of <= 2 plain calls, then one skipping
/// call with k in {0, 1, 2, n}, then plain calls from both ends until past exhaustion
fn nth_programs(n: usize, back: bool) -> Vec<Vec<St>> {
    let mut out = vec![];
    let plain: Vec<St> = if back { vec![St::Next, St::Back] } else { vec![St::Next] };
    let mut prefixes: Vec<Vec<St>> = vec![vec![]];
    for a in &plain {
        prefixes.push(vec![*a]);
        for b in &plain {
            prefixes.push(vec![*a, *b]);
        }
    }
    // (usize::MAX: a cursor that adds the argument before looking at the bound must not wrap)
    let mut ks = vec![0, 1, 2, n, n + 1, usize::MAX - 1, usize::MAX];
    ks.dedup();
    for p in &prefixes {
        for &k in &ks {
            let mut skips = vec![St::Nth(k)];
            if back {
                skips.push(St::NthBack(k));
            }
            for sk in skips {
                for tail in &plain {
                    let mut v = p.clone();
                    v.push(sk);
                    v.extend(std::iter::repeat(*tail).take(2));
                    if back {
                        v.push(St::Next);
                        v.push(St::Back);
                    }
                    out.push(v);
                }
            }
        }
    }
    out
}

/// C13 / C06: every next/next_back program on the non-mutable iterators.
pub struct IterPrograms {
    pub which: Vec<It>,
    pub extra_len: usize,
    pub sorted_vecs: bool,
    pub adaptors: bool,
    /// programs longer than this come from the structured family
    pub full_upto: usize,
}

impl IterPrograms {
    fn run<Q: QueueLike>(&self, q: &Q, m: &Model, unordered: bool) -> Result<u64, String> {
        let n = m.len();
        let mut cases = 0;
        let conv_ref = |t: &(&Item, &Prio)| (pair_of(t.0, t.1), t.0 as *const Item as usize, t.1 as *const Prio as usize);
        let conv_own = |t: &(Item, Prio)| (pair_of(&t.0, &t.1), 0usize, 0usize);
        for &w in &self.which {
            if w == It::Sorted && unordered {
                continue;
            }
            // does the type offer next_back?
            let back = match w {
                It::Iter => q.q_iter().nb().is_some(),
                It::IterRef => q.q_iter_ref().nb().is_some(),
                It::IntoIter => Q::q_new().q_into_iter().nb().is_some(),
                It::Drain => Q::q_new().q_drain().nb().is_some(),
                It::Sorted => Q::q_new().q_into_sorted_iter().nb().is_some(),
            };
            let len = n + self.extra_len;
            // the forward order of this iterator kind (all-next run)
            let mut fwd: Vec<u32> = vec![];
            match w {
                It::Iter | It::IterRef => {
                    let mut it = q.q_iter();
                    while let Some((i, _)) = it.nx() {
                        fwd.push(i.key);
                        if fwd.len() > n + 2 {
                            break;
                        }
                    }
                }
                It::IntoIter => {
                    let mut it = q.clone().q_into_iter();
                    while let Some((i, _)) = it.nx() {
                        fwd.push(i.key);
                        if fwd.len() > n + 2 {
                            break;
                        }
                    }
                }
                It::Drain => {
                    let mut c = q.clone();
                    let mut it = c.q_drain();
                    while let Some((i, _)) = it.nx() {
                        fwd.push(i.key);
                        if fwd.len() > n + 2 {
                            break;
                        }
                    }
                }
                It::Sorted => {}
            }
            if w != It::Sorted && fwd.len() != n {
                return Err(format!("{w:?}: a full forward traversal yields {} elements of {n}", fwd.len()));
            }
            if self.extra_len > 1 {
                match w {
                    It::Iter | It::IterRef => {
                        cases += check_consumers::<(&Item, &Prio)>("iter()", &mut || q.q_iter(), &fwd, back, &|t| t.0.key)?;
                    }
                    It::IntoIter => {
                        cases += check_consumers::<(Item, Prio)>("into_iter()", &mut || q.clone().q_into_iter(), &fwd, back, &|t| t.0.key)?;
                    }
                    _ => {}
                }
            }
            let mut progs = programs_upto(len, back, self.full_upto);
            if w != It::Sorted && self.extra_len > 1 {
                progs.extend(nth_programs(n, back));
            }
            for prog in progs {
                cases += 1;
                match w {
                    It::Iter => {
                        let mut it = q.q_iter();
                        drive("iter()", &mut *it, &prog, m, &conv_ref, None, &mut vec![], true, Some(&fwd))?;
                    }
                    It::IterRef => {
                        let mut it = q.q_iter_ref();
                        drive("(&queue).into_iter()", &mut *it, &prog, m, &conv_ref, None, &mut vec![], true, Some(&fwd))?;
                    }
                    It::IntoIter => {
                        let mut it = q.clone().q_into_iter();
                        drive("into_iter()", &mut *it, &prog, m, &conv_own, None, &mut vec![], true, Some(&fwd))?;
                    }
                    It::Drain => {
                        let mut c = q.clone();
                        {
                            let mut it = c.q_drain();
                            drive("drain()", &mut *it, &prog, m, &conv_own, None, &mut vec![], true, Some(&fwd))?;
                        }
                        let s = c.snap();
                        check_state(&c, &s, &Model::new(), false, &[])?;
                    }
                    It::Sorted => {
                        let mut it = q.clone().q_into_sorted_iter();
                        let spec = SortedSpec { front_is_max: !Q::DOUBLE };
                        drive("into_sorted_iter()", &mut *it, &prog, m, &conv_own, Some(spec), &mut vec![], self.adaptors, None)?;
                    }
                }
            }
        }
        if self.which.contains(&It::Sorted) && !unordered && self.extra_len > 1 {
            // nth / nth_back on the sorted iterator: the (k+1)-th smallest (largest) remaining
            // priority, k+1 elements consumed (all of them and None when k >= remaining), and a
            // fused iterator stays exhausted afterwards
            let back = Q::q_new().q_into_sorted_iter().nb().is_some();
            let mut asc: Vec<i32> = m.values().map(|v| v.1).collect();
            asc.sort();
            if !Q::DOUBLE {
                asc.reverse(); // PriorityQueue's sorted iterator goes from the highest priority down
            }
            for pre in 0..=1usize {
                for k in 0..=(n + 1) {
                    for from_back in [false, true] {
                        if from_back && !back {
                            continue;
                        }
                        cases += 1;
                        let mut it = q.clone().q_into_sorted_iter();
                        let mut rest: Vec<i32> = asc.clone();
                        if pre == 1 {
                            if let Some((_, p)) = it.nx() {
                                if rest.is_empty() || p.v != rest[0] {
                                    return Err(format!("into_sorted_iter(): next() yields priority {} first, expected {:?}", p.v, rest.first()));
                                }
                                rest.remove(0);
                            }
                        }
                        let r = if from_back { it.nth_back(k).flatten() } else { it.nth(k) };
                        let expect = if k < rest.len() { Some(if from_back { rest[rest.len() - 1 - k] } else { rest[k] }) } else { None };
                        let got = r.map(|(_, p)| p.v);
                        if got != expect {
                            return Err(format!("into_sorted_iter(): {}({k}) after {pre} next() yields priority {got:?}, expected {expect:?} (remaining priorities {rest:?})", if from_back { "nth_back" } else { "nth" }));
                        }
                        let left = rest.len().saturating_sub(k + 1);
                        if let Some(l) = it.xlen() {
                            if l != left {
                                return Err(format!("into_sorted_iter(): len() = {l} after {}({k}) on {} remaining elements, expected {left}", if from_back { "nth_back" } else { "nth" }, rest.len()));
                            }
                        }
                        let mut cnt = 0;
                        while it.nx().is_some() {
                            cnt += 1;
                            if cnt > n + 2 {
                                break;
                            }
                        }
                        if cnt != left {
                            return Err(format!("into_sorted_iter(): after {}({k}) on {} remaining elements {cnt} more elements are yielded, expected {left}", if from_back { "nth_back" } else { "nth" }, rest.len()));
                        }
                    }
                }
            }
        }
        if self.sorted_vecs && !unordered {
            cases += 1;
            let key_prio = |v: Vec<Item>| -> Result<Vec<i32>, String> {
                let mut seen = vec![];
                let mut out = vec![];
                for i in &v {
                    if seen.contains(&i.key) {
                        return Err(format!("sorted vector holds item {} twice", i.key));
                    }
                    seen.push(i.key);
                    match m.get(&i.key) {
                        Some(&(pl, p)) if pl == i.payload => out.push(p),
                        other => return Err(format!("sorted vector holds item {:?}, the map holds {other:?}", i)),
                    }
                }
                if v.len() != m.len() {
                    return Err(format!("sorted vector has {} of {} elements", v.len(), m.len()));
                }
                Ok(out)
            };
            let d = key_prio(q.clone().q_into_desc_vec())?;
            if d.windows(2).any(|w| w[0] < w[1]) {
                return Err(format!("{} is not non-increasing: priorities {d:?}", if Q::DOUBLE { "into_descending_sorted_vec" } else { "into_sorted_vec" }));
            }
            if Q::DOUBLE {
                let a = key_prio(q.clone().q_into_asc_vec())?;
                if a.windows(2).any(|w| w[0] > w[1]) {
                    return Err(format!("into_ascending_sorted_vec is not non-decreasing: priorities {a:?}"));
                }
            }
        }
        if self.adaptors {
            for j in 0..=(n + 1) {
                let mut out = vec![];
                q.q_adaptor_lens(j, &mut out);
                check_adaptors(out, n, &mut cases)?;
            }
        }
        Ok(cases)
    }
}

impl<H: HB> Probe<H> for IterPrograms {
    fn name(&self) -> String {
        format!("iterator-programs{:?}", self.which)
    }
    fn on_state(&self, q: &AnyQ<H>, m: &Model, unordered: bool) -> Result<u64, String> {
        with_q!(q, x => self.run(x, m, unordered))
    }
}

fn check_adaptors(out: AdOut, n: usize, cases: &mut u64) -> Result<(), String> {
    for (label, r) in out {
        *cases += 1;
        match r {
            Err(e) => return Err(format!("{label} panicked on a queue of {n}: {e}")),
            Ok((l, c)) => {
                if l != c {
                    return Err(format!("{label} = {l} but the adaptor yields {c} elements (queue of {n})"));
                }
            }
        }
    }
    Ok(())
}

/// By-value consumers after a prefix of plain calls: `last()` must be the last remaining element of
/// the forward order (None when exhausted), `count()` the number of remaining elements.
/// Prefixes after which the by-value consumers run: a calls of next then b of next_back (and the
/// other way round) for all a + b <= n + 1 on small queues, a structured subset on larger ones.
pub fn consumer_prefixes(n: usize, back: bool) -> Vec<Vec<St>> {
    let mut out: Vec<Vec<St>> = vec![];
    let cands: Vec<usize> = if n <= 10 { (0..=n + 1).collect() } else { vec![0, 1, 2, n / 2, n - 2, n - 1, n, n + 1] };
    for &a in &cands {
        for &b in &cands {
            if a + b > n + 1 || (b > 0 && !back) {
                continue;
            }
            let mut p = vec![St::Next; a];
            p.extend(vec![St::Back; b]);
            out.push(p.clone());
            if a > 0 && b > 0 {
                let mut r = vec![St::Back; b];
                r.extend(vec![St::Next; a]);
                out.push(r);
                if a + b <= 4 {
                    // interleaved
                    let mut x = vec![];
                    for i in 0..a.max(b) {
                        if i < a {
                            x.push(St::Next);
                        }
                        if i < b {
                            x.push(St::Back);
                        }
                    }
                    out.push(x);
                }
            }
        }
    }
    out.sort_by_key(|p| p.iter().map(|s| if *s == St::Next { 0u8 } else { 1 }).collect::<Vec<_>>());
    out.dedup();
    out
}

fn check_consumers<'a, T>(
    what: &str,
    mk: &mut dyn FnMut() -> Box<dyn DynIter<T> + 'a>,
    fwd: &[u32],
    back: bool,
    key_of: &dyn Fn(&T) -> u32,
) -> Result<u64, String> {
    let n = fwd.len();
    let mut cases = 0;
    let prefixes = consumer_prefixes(n, back);
    for pre in &prefixes {
        // the prefix never over-consumes one end at the expense of the other: a + b <= n + 1
        let a = pre.iter().filter(|s| **s == St::Next).count();
        let b = pre.iter().filter(|s| **s == St::Back).count();
        let (nf, nb) = if a + b <= n { (a, b) } else if pre.first() == Some(&St::Back) { (n - b.min(n), b.min(n)) } else { (a.min(n), n - a.min(n)) };
        let rest: &[u32] = &fwd[nf..n - nb];
        for which in 0..6 {
            cases += 1;
            let mut it = mk();
            for st in pre {
                match st {
                    St::Next => {
                        it.nx();
                    }
                    _ => {
                        it.nb();
                    }
                }
            }
            match which {
                0 => {
                    let got = it.last_().map(|t| key_of(&t));
                    if got != rest.last().copied() {
                        return Err(format!("{what}: after {pre:?}, last() yields item {got:?}; the last remaining element of the forward order {fwd:?} is {:?}", rest.last()));
                    }
                }
                1 => {
                    let got = it.count_();
                    if got != rest.len() {
                        return Err(format!("{what}: after {pre:?}, count() = {got} but {} elements remain", rest.len()));
                    }
                }
                2 => {
                    let mut got = vec![];
                    it.for_each_(&mut |t| got.push(key_of(&t)));
                    if got != rest {
                        return Err(format!("{what}: after {pre:?}, for_each visits items {got:?}; the remaining elements of the forward order {fwd:?} are {rest:?}"));
                    }
                }
                3 => {
                    if let Some(got) = it.rev_all_() {
                        let got: Vec<u32> = got.iter().map(|t| key_of(t)).collect();
                        let want: Vec<u32> = rest.iter().rev().copied().collect();
                        if got != want {
                            return Err(format!("{what}: after {pre:?}, rev().for_each visits items {got:?}; the remaining elements of the forward order {fwd:?}, reversed, are {want:?}"));
                        }
                    }
                }
                4 => {
                    // find the last remaining element, then the iterator must be exhausted
                    let target = rest.last().copied();
                    let got = it.find_(&mut |t| Some(key_of(t)) == target).map(|t| key_of(&t));
                    if got != target {
                        return Err(format!("{what}: after {pre:?}, find(last remaining) yields {got:?} instead of {target:?}"));
                    }
                    if let Some(t) = it.nx() {
                        return Err(format!("{what}: after {pre:?} and a find that consumed everything, next() still yields item {}", key_of(&t)));
                    }
                }
                _ => {
                    let target = rest.first().copied();
                    match it.rfind_(&mut |t| Some(key_of(t)) == target) {
                        None => {}
                        Some(got) => {
                            let got = got.map(|t| key_of(&t));
                            if got != target {
                                return Err(format!("{what}: after {pre:?}, rfind(first remaining) yields {got:?} instead of {target:?}"));
                            }
                            if let Some(t) = it.nx() {
                                return Err(format!("{what}: after {pre:?} and an rfind that consumed everything, next() still yields item {}", key_of(&t)));
                            }
                        }
                    }
                }
            }
        }
    }
    Ok(cases)
}

/// C09: every next/next_back program on iter_mut, references kept alive, written through at the end.
pub struct IterMutPrograms {
    pub extra_len: usize,
    pub prios: Vec<i32>,
    /// reduced program set (Miri stage): no nth programs, no `&mut queue` variant, no adaptors
    pub lite: bool,
}

impl IterMutPrograms {
    fn run<Q: QueueLike>(&self, q: &Q, m: &Model, _unordered: bool) -> Result<u64, String> {
        let n = m.len();
        let mut cases = 0;
        let back = iter_mut_offers_back(q);
        let conv = |t: &(&mut Item, &mut Prio)| (pair_of(t.0, t.1), &*t.0 as *const Item as usize, &*t.1 as *const Prio as usize);
        let universe: Vec<u32> = m.keys().copied().collect();
        let mut fwd: Vec<u32> = vec![];
        {
            let mut c = q.clone();
            let mut it = c.q_iter_mut();
            while let Some((i, _)) = it.nx() {
                fwd.push(i.key);
                if fwd.len() > n + 2 {
                    break;
                }
            }
        }
        if fwd.len() != n {
            return Err(format!("iter_mut: a full forward traversal yields {} elements of {n}", fwd.len()));
        }
        if !self.lite {
            // by-value consumers: each needs its own clone to borrow from
            let pres = consumer_prefixes(n, back);
            for pre in &pres {
                let a = pre.iter().filter(|s| **s == St::Next).count();
                let b = pre.iter().filter(|s| **s == St::Back).count();
                let (nf, nb) = if a + b <= n { (a, b) } else if pre.first() == Some(&St::Back) { (n - b.min(n), b.min(n)) } else { (a.min(n), n - a.min(n)) };
                let rest: &[u32] = &fwd[nf..n - nb];
                for which in 0..4 {
                    cases += 1;
                    let mut c = q.clone();
                    let mut it = c.q_iter_mut();
                    for st in pre {
                        if *st == St::Next {
                            it.nx();
                        } else {
                            it.nb();
                        }
                    }
                    if which == 0 {
                        let got = it.last_().map(|t| t.0.key);
                        if got != rest.last().copied() {
                            return Err(format!("iter_mut(): after {pre:?}, last() yields item {got:?}; the last remaining element of the forward order {fwd:?} is {:?}", rest.last()));
                        }
                    } else if which == 1 {
                        let got = it.count_();
                        if got != rest.len() {
                            return Err(format!("iter_mut(): after {pre:?}, count() = {got} but {} elements remain", rest.len()));
                        }
                    } else if which == 2 {
                        let mut got = vec![];
                        it.for_each_(&mut |t| got.push(t.0.key));
                        if got != rest {
                            return Err(format!("iter_mut(): after {pre:?}, for_each visits items {got:?}; the remaining elements of the forward order {fwd:?} are {rest:?}"));
                        }
                    } else if let Some(got) = it.rev_all_() {
                        let got: Vec<u32> = got.iter().map(|t| t.0.key).collect();
                        let want: Vec<u32> = rest.iter().rev().copied().collect();
                        if got != want {
                            return Err(format!("iter_mut(): after {pre:?}, rev().for_each visits items {got:?}; the remaining elements of the forward order {fwd:?}, reversed, are {want:?}"));
                        }
                    }
                }
            }
        }
        let mut all: Vec<Vec<St>> = vec![];
        for len in 0..=(n + self.extra_len) {
            all.extend(programs(len, back));
        }
        if !self.lite {
            all.extend(nth_programs(n, back));
        }
        let refs: &[bool] = if self.lite { &[false] } else { &[false, true] };
        {
            for prog in all {
                for &via_ref in refs {
                    for write in [false, true] {
                        cases += 1;
                        let mut c = q.clone();
                        let mut mm = m.clone();
                        {
                            let mut it = if via_ref { c.q_iter_mut_ref() } else { c.q_iter_mut() };
                            let mut keep: Vec<(&mut Item, &mut Prio)> = vec![];
                            let what = format!("iter_mut(){}", if via_ref { " via &mut queue" } else { "" });
                            drive(&what, &mut *it, &prog, m, &conv, None, &mut keep, true, Some(&fwd))?;
                            if write {
                                // every reference handed out is still alive: write through all of them
                                for (j, (i, p)) in keep.iter_mut().enumerate() {
                                    let np = self.prios[(j + i.key as usize) % self.prios.len()];
                                    **p = Prio::new(np);
                                    mm.get_mut(&i.key).unwrap().1 = np;
                                }
                            }
                            drop(keep);
                            drop(it);
                        }
                        let s = c.snap();
                        check_state(&c, &s, &mm, false, &universe).map_err(|e| format!("after iter_mut program {prog:?} (write={write}) was dropped: {e}"))?;
                    }
                }
            }
        }
        for j in 0..=(if self.lite { 0 } else { n + 1 }) {
            let mut out = vec![];
            q.q_adaptor_lens_mut(j, &mut out);
            check_adaptors(out, n, &mut cases)?;
        }
        Ok(cases)
    }
}

impl<H: HB> Probe<H> for IterMutPrograms {
    fn name(&self) -> String {
        "iter_mut-programs".into()
    }
    fn on_state(&self, q: &AnyQ<H>, m: &Model, unordered: bool) -> Result<u64, String> {
        with_q!(q, x => self.run(x, m, unordered))
    }
}

/// C16: a queue emptied by clear/drain behaves like a fresh one: every operation sequence of
/// depth <= 2 gives the same returns and the same tables.
pub struct EmptiedLikeFresh {
    pub universe: Vec<u32>,
    pub prios: Vec<i32>,
}

impl EmptiedLikeFresh {
    fn continuations<Q: QueueLike>(&self, emptied: &Q, how: &str) -> Result<u64, String> {
        let fresh = Q::q_new();
        let se = emptied.snap();
        let sf = fresh.snap();
        if se != sf {
            return Err(format!("after {how} the tables are {se:?}, a fresh queue has {sf:?}"));
        }
        check_state(emptied, &se, &Model::new(), false, &self.universe).map_err(|e| format!("after {how}: {e}"))?;
        if emptied.q_peek_hi().is_some() || (Q::DOUBLE && emptied.q_peek_lo().is_some()) {
            return Err(format!("after {how} a peek returns an element"));
        }
        let mut ops: Vec<Op> = vec![Op::PopHi];
        if Q::DOUBLE {
            ops.push(Op::PopLo);
        }
        for &k in &self.universe {
            for &p in &self.prios {
                ops.push(Op::Push(k, 0, p));
                ops.push(Op::PushInc(k, 0, p));
                ops.push(Op::Change(k, p, false));
            }
            ops.push(Op::Remove(k, false));
        }
        ops.push(Op::Clear);
        ops.push(Op::Drain { front: 1, back: 0, end: End::Drop });
        // refill through extend (both hint styles), with an item named twice
        let (k0, p0, p1) = (self.universe[0], self.prios[0], *self.prios.last().unwrap());
        for h in [Hint { lo: 2, hi: Some(2) }, Hint { lo: 0, hi: None }] {
            ops.push(Op::Extend(vec![(k0, 0, p0), (k0, 0, p1)], h));
        }
        ops.push(Op::Extend(self.universe.iter().map(|&k| (k, 0, p1)).collect(), Hint { lo: 0, hi: Some(self.universe.len()) }));
        let mut cases = 0;
        for o1 in &ops {
            for o2 in &ops {
                cases += 1;
                let mut a = emptied.clone();
                let mut b = Q::q_new();
                let mut ma = Model::new();
                let mut mb = Model::new();
                let (mut ua, mut ub) = (false, false);
                for o in [o1, o2] {
                    let ra = step(&mut a, o, &mut ma, &mut ua).map_err(|e| format!("after {how}, then {o1:?},{o2:?}: {e}"))?;
                    let rb = step(&mut b, o, &mut mb, &mut ub)?;
                    let (sa, sb) = (a.snap(), b.snap());
                    if ra != rb || sa != sb {
                        return Err(format!("after {how}, {o1:?},{o2:?} behaves differently from a fresh queue: {ra:?}/{sa:?} vs {rb:?}/{sb:?}"));
                    }
                    check_state(&a, &sa, &ma, false, &self.universe).map_err(|e| format!("after {how}, then {o1:?},{o2:?}: {e}"))?;
                }
            }
        }
        Ok(cases)
    }

    fn run<Q: QueueLike>(&self, q: &Q, m: &Model) -> Result<u64, String> {
        let n = m.len();
        let mut cases = 0;
        let mut c = q.clone();
        c.q_clear();
        cases += self.continuations(&c, "clear()")?;
        // every (front, back) consumption pattern on small queues; beyond 12 elements a structured
        // family (nothing, one or two from either end, halves, all but one, all, one past the end)
        let cands: Vec<usize> = if n <= 12 { (0..=n + 1).collect() } else { vec![0, 1, 2, n / 2, n - 1, n, n + 1] };
        for &f in &cands {
            for &b in &cands {
                if f + b > n + 1 {
                    continue;
                }
                for end in [End::Drop, End::Forget] {
                    let mut c = q.clone();
                    let mut mm = m.clone();
                    let mut un = false;
                    let op = Op::Drain { front: f as u32, back: b as u32, end };
                    step(&mut c, &op, &mut mm, &mut un)?;
                    cases += self.continuations(&c, &format!("{op:?}"))?;
                }
            }
        }
        Ok(cases)
    }
}

impl<H: HB> Probe<H> for EmptiedLikeFresh {
    fn name(&self) -> String {
        "emptied-behaves-like-fresh".into()
    }
    fn on_state(&self, q: &AnyQ<H>, m: &Model, _unordered: bool) -> Result<u64, String> {
        with_q!(q, x => self.run(x, m))
    }
}

/// C08: every consumed prefix x every write pattern of iter_mut (front, back, alternating), and
/// retain_mut with every keep-mask x rewrite table, each as a fully checked transition.
pub struct BulkMutationPrograms {
    pub universe: Vec<u32>,
    pub prios: Vec<i32>,
    pub all_tables: bool,
}

impl<H: HB> Probe<H> for BulkMutationPrograms {
    fn name(&self) -> String {
        "bulk-mutation-programs".into()
    }
    fn on_state(&self, q: &AnyQ<H>, m: &Model, unordered: bool) -> Result<u64, String> {
        let n = m.len();
        let back_offered = with_q!(q, x => iter_mut_offers_back(x));
        let mut ops: Vec<Op> = vec![];
        // iter_mut: writes = None or one of the priorities, per consumed element
        let choices: Vec<Option<i32>> = std::iter::once(None).chain(self.prios.iter().map(|&p| Some(p))).collect();
        let dirs: Vec<u8> = if back_offered { vec![0, 1, 2] } else { vec![0] };
        for j in 0..=(n + 1) {
            let combos = (choices.len() as u64).pow(j as u32);
            for c in 0..combos {
                for &d in &dirs {
                    if d > 0 && j == 0 {
                        continue;
                    }
                    let mut x = c;
                    let steps: Vec<ImStep> = (0..j)
                        .map(|i| {
                            let w = choices[(x % choices.len() as u64) as usize];
                            x /= choices.len() as u64;
                            let back = match d {
                                0 => false,
                                1 => true,
                                _ => i % 2 == 1,
                            };
                            ImStep { back, prio: w, payload: None, skip: 0 }
                        })
                        .collect();
                    ops.push(Op::IterMut { steps, end: End::Drop, via_ref: false });
                }
            }
        }
        // retain_mut: all masks x all rewrite tables (or a structured subset)
        let present: Vec<u32> = m.keys().copied().collect();
        let masks: Vec<Vec<u32>> = (0..(1u32 << n)).map(|mask| (0..n).filter(|i| mask >> i & 1 == 1).map(|i| present[i]).collect()).collect();
        let mut tables: Vec<Vec<(u32, i32)>> = vec![];
        if self.all_tables {
            let combos = (choices.len() as u64).pow(n as u32);
            for c in 0..combos {
                let mut x = c;
                let mut t = vec![];
                for &k in &present {
                    if let Some(p) = choices[(x % choices.len() as u64) as usize] {
                        t.push((k, p));
                    }
                    x /= choices.len() as u64;
                }
                tables.push(t);
            }
        } else {
            tables.push(vec![]);
            for &k in &present {
                for &p in &self.prios {
                    tables.push(vec![(k, p)]);
                }
            }
        }
        for mk in &masks {
            for t in &tables {
                ops.push(Op::RetainMut(mk.clone(), t.clone()));
            }
            ops.push(Op::Retain(mk.clone()));
        }
        let mut cases = 0;
        for op in &ops {
            cases += 1;
            apply(q, unordered, m, op, &self.universe).map_err(|e| format!("{op:?}: {e}"))?;
        }
        Ok(cases)
    }
}

fn core_ops(universe: &[u32], prios: &[i32], double: bool) -> Vec<Op> {
    let mut ops = vec![Op::PopHi];
    if double {
        ops.push(Op::PopLo);
    }
    for &k in universe {
        for &p in prios {
            ops.push(Op::Push(k, 0, p));
            ops.push(Op::Change(k, p, false));
            ops.push(Op::PushInc(k, 0, p));
        }
        ops.push(Op::Remove(k, false));
    }
    ops.push(Op::Clear);
    ops
}

/// C14: a clone is equal to its source, has the same arrangement, behaves identically, and
/// mutating either never affects the other.
pub struct CloneIndependence {
    pub universe: Vec<u32>,
    pub prios: Vec<i32>,
}

impl CloneIndependence {
    fn run<Q: QueueLike>(&self, q: &Q, m: &Model) -> Result<u64, String> {
        let before = q.snap();
        let mut cases = 0;
        let c0 = q.clone();
        if !q.q_eq(&c0) || !c0.q_eq(q) || q.q_ne(&c0) {
            return Err("a clone does not compare equal to its source".into());
        }
        if !q.q_eq(q) || q.q_ne(q) {
            return Err("a queue does not compare equal to itself".into());
        }
        if c0.snap() != before {
            return Err(format!("a clone is arranged differently from its source: {:?} vs {:?}", c0.snap(), before));
        }
        let mut extra = core_ops(&self.universe, &self.prios, Q::DOUBLE);
        extra.push(Op::IterMut { steps: vec![ImStep { back: false, prio: Some(self.prios[0]), payload: Some(9), skip: 0 }], end: End::Drop, via_ref: false });
        extra.push(Op::Retain(m.keys().copied().take(1).collect()));
        extra.push(Op::Drain { front: 1, back: 0, end: End::Drop });
        extra.push(Op::Reserve(100));
        extra.push(Op::ShrinkToFit);
        for op in &extra {
            cases += 1;
            // mutate the clone: the source must not change
            let src = q.clone();
            let mut cl = src.clone();
            let mut mm = m.clone();
            let mut un = false;
            let r1 = step(&mut cl, op, &mut mm, &mut un).map_err(|e| format!("{op:?} on a clone: {e}"))?;
            let s_after = src.snap();
            if s_after != before {
                return Err(format!("{op:?} on a clone changed its source: {before:?} -> {s_after:?}"));
            }
            check_state(&src, &s_after, m, false, &self.universe).map_err(|e| format!("source after {op:?} on its clone: {e}"))?;
            // mutate the source: the clone must not change, and both behave identically
            let mut src2 = q.clone();
            let cl2 = src2.clone();
            let mut mm2 = m.clone();
            let r2 = step(&mut src2, op, &mut mm2, &mut un).map_err(|e| format!("{op:?}: {e}"))?;
            if cl2.snap() != before {
                return Err(format!("{op:?} on the source changed its clone"));
            }
            if r1 != r2 || cl.snap() != src2.snap() {
                return Err(format!("{op:?} behaves differently on a clone ({r1:?}, {:?}) and on its source ({r2:?}, {:?})", cl.snap(), src2.snap()));
            }
        }
        // a clone of a queue with a different capacity history (excess capacity on the source, or
        // on the clone) still behaves identically: equality, and every append of a clashing
        // shorter / longer queue, where the side that is drained may not depend on capacities
        let mut appends: Vec<Op> = vec![];
        for &k in &self.universe {
            appends.push(Op::Append(vec![(k, 0, self.prios[0])]));
            appends.push(Op::Append(vec![(k, 0, *self.prios.last().unwrap())]));
        }
        let extra_key = self.universe.iter().max().copied().unwrap_or(0) + 1;
        for &p in [self.prios[0], *self.prios.last().unwrap()].iter() {
            let mut big: Vec<Pair> = self.universe.iter().map(|&k| (k, 0, p)).collect();
            big.extend((0..3).map(|i| (extra_key + i, 0, p)));
            appends.push(Op::Append(big));
        }
        for roomy_source in [true, false] {
            for op in &appends {
                cases += 1;
                let mut src = q.clone();
                let mut cl;
                if roomy_source {
                    src.q_reserve(64);
                    cl = src.clone();
                } else {
                    cl = src.clone();
                    cl.q_reserve(64);
                }
                if !src.q_eq(&cl) || !cl.q_eq(&src) || src.q_ne(&cl) {
                    return Err("a clone with a different capacity does not compare equal to its source".into());
                }
                let (mut m1, mut m2) = (m.clone(), m.clone());
                let mut un = false;
                let r1 = step(&mut src, op, &mut m1, &mut un).map_err(|e| format!("{op:?}: {e}"))?;
                let r2 = step(&mut cl, op, &mut m2, &mut un).map_err(|e| format!("{op:?} on a clone: {e}"))?;
                if r1 != r2 || cl.snap() != src.snap() {
                    return Err(format!(
                        "{op:?} behaves differently on a clone ({r2:?}, {:?}) and on its source ({r1:?}, {:?}) when the {} has excess capacity",
                        cl.snap(),
                        src.snap(),
                        if roomy_source { "source" } else { "clone" }
                    ));
                }
                if !src.q_eq(&cl) {
                    return Err(format!("after {op:?} a clone and its source (different capacities) are no longer equal"));
                }
            }
        }
        Ok(cases)
    }
}

impl<H: HB> Probe<H> for CloneIndependence {
    fn name(&self) -> String {
        "clone-independence".into()
    }
    fn on_state(&self, q: &AnyQ<H>, m: &Model, _unordered: bool) -> Result<u64, String> {
        with_q!(q, x => self.run(x, m))
    }
}

/// C17: capacity calls are invisible: after any of them every depth-2 continuation gives the
/// same returns and contents as on the untouched queue, and the extraction order is the same.
pub struct CapacityTwin {
    pub universe: Vec<u32>,
    pub prios: Vec<i32>,
    pub huge: bool,
}

pub fn drain_order<Q: QueueLike>(q: &Q, hi: bool) -> Vec<Pair> {
    let mut c = q.clone();
    let mut out = vec![];
    for _ in 0..(q.q_len() + 2) {
        match if hi { c.q_pop_hi() } else { c.q_pop_lo() } {
            Some((i, p)) => out.push(pair_of(&i, &p)),
            None => break,
        }
    }
    out
}

impl CapacityTwin {
    fn run<Q: QueueLike>(&self, q: &Q, m: &Model) -> Result<u64, String> {
        let mut amounts: Vec<usize> = vec![0, 1, 5, 100];
        if self.huge {
            amounts.extend([1usize << 60, usize::MAX - 1, usize::MAX]);
        }
        let mut caps: Vec<Op> = vec![Op::ShrinkToFit];
        for &a in &amounts {
            caps.extend([Op::Reserve(a), Op::ReserveExact(a), Op::TryReserve(a), Op::TryReserveExact(a)]);
        }
        let conts = core_ops(&self.universe, &self.prios, Q::DOUBLE);
        // first continuation: also append of every 1- and 2-element queue (clashes included):
        // which side append drains must not depend on capacities
        let mut conts1 = conts.clone();
        for &k in &self.universe {
            for &p in &self.prios {
                conts1.push(Op::Append(vec![(k, 0, p)]));
                for &k2 in &self.universe {
                    if k2 != k {
                        conts1.push(Op::Append(vec![(k, 0, p), (k2, 0, self.prios[0])]));
                    }
                }
            }
        }
        // a longer queue that clashes with every stored item (on a clash with a longer queue either
        // priority may stay, but WHICH one may not depend on capacities)
        let extra = self.universe.iter().max().copied().unwrap_or(0) + 1;
        for &p in [self.prios[0], self.prios[self.prios.len() - 1]].iter() {
            let mut big: Vec<Pair> = self.universe.iter().map(|&k| (k, 0, p)).collect();
            big.extend((0..3).map(|i| (extra + i, 0, p)));
            conts1.push(Op::Append(big));
        }
        conts1.push(Op::Retain(vec![self.universe[0]]));
        conts1.push(Op::Extend(vec![(self.universe[0], 0, self.prios[0])], Hint { lo: 0, hi: None }));
        conts1.push(Op::IterMut { steps: vec![ImStep { back: false, prio: Some(self.prios[self.prios.len() - 1]), payload: None, skip: 0 }], end: End::Drop, via_ref: false });
        let mut cases = 0;
        for cap in &caps {
            let mut t = q.clone();
            let mut mm = m.clone();
            let mut un = false;
            let r = step(&mut t, cap, &mut mm, &mut un).map_err(|e| format!("{cap:?}: {e}"))?;
            if mm != *m {
                return Err(format!("{cap:?} changed the reference contents (oracle bug?)"));
            }
            let st = t.snap();
            check_state(&t, &st, m, false, &self.universe).map_err(|e| format!("after {cap:?} ({r:?}): {e}"))?;
            if drain_order(&t, true) != drain_order(q, true) || (Q::DOUBLE && drain_order(&t, false) != drain_order(q, false)) {
                return Err(format!("{cap:?} changed the order of extraction"));
            }
            for o1 in &conts1 {
                for o2 in &conts {
                    cases += 1;
                    let mut a = q.clone();
                    // NOT a clone of `t`: cloning re-sizes the tables and would undo the capacity call
                    let mut b = q.clone();
                    let (mut ma, mut mb) = (m.clone(), m.clone());
                    let (mut ua, mut ub) = (false, false);
                    step(&mut b, cap, &mut mb, &mut ub).map_err(|e| format!("{cap:?}: {e}"))?;
                    for o in [o1, o2] {
                        let ra = step(&mut a, o, &mut ma, &mut ua)?;
                        let rb = step(&mut b, o, &mut mb, &mut ub).map_err(|e| format!("after {cap:?}, then {o1:?},{o2:?}: {e}"))?;
                        if ra != rb || ma != mb || model_of(&a.snap()) != model_of(&b.snap()) {
                            return Err(format!("after {cap:?}, {o1:?},{o2:?} gives {rb:?}/{:?} instead of {ra:?}/{:?}", b.snap().slots, a.snap().slots));
                        }
                    }
                    if drain_order(&a, true) != drain_order(&b, true) {
                        return Err(format!("after {cap:?}, then {o1:?},{o2:?}: the extraction order differs from the untouched queue"));
                    }
                }
            }
        }
        Ok(cases)
    }
}

impl<H: HB> Probe<H> for CapacityTwin {
    fn name(&self) -> String {
        "capacity-twin".into()
    }
    fn on_state(&self, q: &AnyQ<H>, m: &Model, _unordered: bool) -> Result<u64, String> {
        with_q!(q, x => self.run(x, m))
    }
}

/// C11 with priorities whose Ord ignores part of the value: when the offer does not move the
/// priority, the STORED value must stay and the OFFERED one must come back; when it moves, the
/// offered value is stored and the old stored one comes back.
pub struct OfferedVsStored {
    pub universe: Vec<u32>,
}

impl OfferedVsStored {
    /// push / change_priority / change_priority_by always store the OFFERED value and hand back the
    /// previously STORED one, also when the two rank equal.
    fn run_updates<Q: QueueLike>(&self, q: &Q, m: &Model) -> Result<u64, String> {
        let mut cases = 0;
        for (&k, &(_, stored)) in m.iter() {
            for delta in [-1i32, 0, 1] {
                let Some(offer) = stored.checked_add(delta) else { continue };
                for which in 0..4 {
                    cases += 1;
                    let mut c = q.clone();
                    let (name, ret): (&str, Option<(i32, u8)>) = match which {
                        0 => ("push", c.q_push(Item::new(k, 0xEE), Prio::tagged(offer, 7)).map(|p| (p.v, p.tag))),
                        1 => ("change_priority", c.q_change_priority(&Item::new(k, 0xEE), Prio::tagged(offer, 7)).map(|p| (p.v, p.tag))),
                        2 => ("change_priority (borrowed key)", c.q_change_priority_b(&Key(k), Prio::tagged(offer, 7)).map(|p| (p.v, p.tag))),
                        _ => {
                            let mut seen = None;
                            let ok = c.q_change_priority_by_b(&Key(k), |p| {
                                seen = Some((p.v, p.tag));
                                *p = Prio::tagged(offer, 7);
                            });
                            ("change_priority_by", if ok { seen } else { None })
                        }
                    };
                    let now = c.q_get_priority_b(&Key(k)).map(|p| (p.v, p.tag));
                    if ret != Some((stored, 0)) {
                        return Err(format!("{name}({k}, {offer}) on stored {stored}: handed back {ret:?}, expected the previously stored value ({stored}, tag 0)"));
                    }
                    if now != Some((offer, 7)) {
                        return Err(format!("{name}({k}, {offer}) on stored {stored}: the queue now holds {now:?}, expected the value just assigned ({offer}, tag 7)"));
                    }
                    let s = c.snap();
                    check_tables(&s)?;
                    check_order(&s, Q::DOUBLE).map_err(|e| format!("after {name}({k}, {offer}): {e}"))?;
                }
            }
        }
        Ok(cases)
    }

    fn run<Q: QueueLike>(&self, q: &Q, m: &Model) -> Result<u64, String> {
        let mut cases = self.run_updates(q, m)?;
        let before = q.snap();
        for (&k, &(_, stored)) in m.iter() {
            for inc in [true, false] {
                for delta in [-1i32, 0, 1] {
                    let Some(offer) = stored.checked_add(delta) else { continue };
                    cases += 1;
                    let name = if inc { "push_increase" } else { "push_decrease" };
                    let mut c = q.clone();
                    let r = if inc { c.q_push_increase(Item::new(k, 0xEE), Prio::tagged(offer, 7)) } else { c.q_push_decrease(Item::new(k, 0xEE), Prio::tagged(offer, 7)) };
                    let moves = if inc { offer > stored } else { offer < stored };
                    let now = c.q_get_priority_b(&Key(k)).map(|p| (p.v, p.tag));
                    let r = r.map(|p| (p.v, p.tag));
                    if moves {
                        if r != Some((stored, 0)) || now != Some((offer, 7)) {
                            return Err(format!("{name}({k}, {offer}) on stored {stored}: returned {r:?} (expected the old stored value ({stored}, tag 0)), stored now {now:?} (expected the offered value, tag 7)"));
                        }
                    } else {
                        if r != Some((offer, 7)) {
                            return Err(format!("{name}({k}, {offer}) on stored {stored} must return the offered value (tag 7), returned {r:?}"));
                        }
                        if now != Some((stored, 0)) {
                            return Err(format!("{name}({k}, {offer}) on stored {stored} must leave the stored priority untouched (tag 0), stored now {now:?}"));
                        }
                        if c.snap() != before {
                            return Err(format!("{name}({k}, {offer}) on stored {stored} changed the queue: {:?} -> {:?}", before, c.snap()));
                        }
                    }
                }
            }
        }
        Ok(cases)
    }
}

impl<H: HB> Probe<H> for OfferedVsStored {
    fn name(&self) -> String {
        "offered-vs-stored-priority".into()
    }
    fn on_state(&self, q: &AnyQ<H>, m: &Model, _unordered: bool) -> Result<u64, String> {
        with_q!(q, x => self.run(x, m))
    }
}

/// C07 with priorities whose Ord ignores part of the value (the tag): WHICH of several priorities that
/// rank equal a bulk operation keeps is specified (extend / FromIterator: the last, From<Vec>: the
/// first, append: the receiver's unless the other queue was longer) and must not depend on the
/// size_hint, i.e. on the internal strategy. Stored priorities of explored states carry tag 0.
pub struct TaggedBulk;

impl TaggedBulk {
    pub fn run<Q: QueueLike>(q: &Q, m: &Model) -> Result<u64, String> {
        let mut cases = 0;
        let tag_of = |c: &Q, k: u32| c.q_get_priority_b(&Key(k)).map(|p| (p.v, p.tag));
        let n = m.len();
        let fresh = m.keys().max().map_or(0, |k| k + 1);
        let mut targets: Vec<(u32, i32, bool)> = vec![];
        let keys: Vec<u32> = m.keys().copied().collect();
        let picked: Vec<u32> = if n <= 4 { keys.clone() } else { vec![keys[0], keys[n / 2], keys[n - 1]] };
        for k in picked {
            targets.push((k, m[&k].1, true));
        }
        targets.push((fresh, m.values().map(|v| v.1).max().unwrap_or(0), false));
        for &(k, v, present) in &targets {
            // the same item offered twice (tags 7 then 8) with the rank it already has, surrounded by
            // enough filler to make a long batch where the hint says so
            for filler in [0usize, 20] {
                let mut seq: Vec<(u32, i32, u8)> = vec![(k, v, 7)];
                for i in 0..filler {
                    seq.push((fresh + 1 + i as u32, v, 1));
                }
                seq.push((k, v, 8));
                let len = seq.len();
                for h in crate::post::hint_menu(len, true) {
                    cases += 1;
                    let mut c = q.clone();
                    c.q_extend(Hinted::new(seq.iter().map(|&(k, v, t)| (Item::new(k, 0), Prio::tagged(v, t))).collect(), h.lo, h.hi));
                    let now = tag_of(&c, k);
                    if now != Some((v, 8)) {
                        return Err(format!("extend with size_hint {h:?} of a batch of {len} pairs offering item {k} ({}) twice with priorities that rank equal (tags 7 then 8): the queue holds {now:?}, extend must keep the LAST one", if present { "stored with an equal-ranking priority, tag 0" } else { "not stored before" }));
                    }
                    let s = c.snap();
                    check_tables(&s)?;
                    check_order(&s, Q::DOUBLE).map_err(|e| format!("after a tagged extend: {e}"))?;
                }
                // one offer only
                for h in crate::post::hint_menu(1, false) {
                    cases += 1;
                    let mut c = q.clone();
                    c.q_extend(Hinted::new(vec![(Item::new(k, 0), Prio::tagged(v, 7))], h.lo, h.hi));
                    let now = tag_of(&c, k);
                    if now != Some((v, 7)) {
                        return Err(format!("extend with size_hint {h:?} offering item {k} once with a priority that ranks equal to the stored one: the queue holds {now:?}, expected the offered value (tag 7)"));
                    }
                }
            }
            // constructors from the same batch
            let batch: Vec<(u32, i32, u8)> = {
                let mut b: Vec<(u32, i32, u8)> = m.iter().map(|(&kk, &(_, p))| (kk, p, 0)).collect();
                b.push((k, v, 7));
                b.push((fresh + 1, v, 1));
                b.push((k, v, 8));
                b
            };
            let mk_batch = || batch.iter().map(|&(k, v, t)| (Item::new(k, 0), Prio::tagged(v, t))).collect::<Vec<_>>();
            for h in crate::post::hint_menu(batch.len(), true) {
                cases += 1;
                let c = Q::q_from_iter(Hinted::new(mk_batch(), h.lo, h.hi));
                let now = tag_of(&c, k);
                if now != Some((v, 8)) {
                    return Err(format!("FromIterator with size_hint {h:?}: item {k} offered with equal-ranking priorities, the last tagged 8: the queue holds {now:?}, FromIterator must keep the LAST one"));
                }
            }
            cases += 1;
            let c = Q::q_from_vec(mk_batch());
            let want = if present { (v, 0) } else { (v, 7) };
            let now = tag_of(&c, k);
            if now != Some(want) {
                return Err(format!("From<Vec>: item {k} given several equal-ranking priorities: the queue holds {now:?}, From<Vec> must keep the FIRST one {want:?}"));
            }
        }
        // append: a shorter / equally long / longer queue clashing on one stored item
        if n > 0 {
            for &k in &[keys[0], keys[n - 1]] {
                let v = m[&k].1;
                for extra in [0usize, n.saturating_sub(1), n, n + 1] {
                    cases += 1;
                    let mut c = q.clone();
                    let mut o = Q::q_new();
                    o.q_push(Item::new(k, 0), Prio::tagged(v, 9));
                    for i in 0..extra {
                        o.q_push(Item::new(fresh + 10 + i as u32, 0), Prio::tagged(v, 1));
                    }
                    let olen = o.q_len();
                    c.q_append(&mut o);
                    let now = tag_of(&c, k);
                    let ok = if olen > n { now == Some((v, 0)) || now == Some((v, 9)) } else { now == Some((v, 0)) };
                    if !ok {
                        return Err(format!("append of a queue of {olen} elements to one of {n}, clashing on item {k} with an equal-ranking priority (tag 9): the receiver holds {now:?}; its own value (tag 0) must stay unless the other queue was longer"));
                    }
                    if c.q_len() != n + extra || o.q_len() != 0 {
                        return Err(format!("append of {olen} elements (one clash) to {n}: lengths {} and {}", c.q_len(), o.q_len()));
                    }
                }
            }
        }
        Ok(cases)
    }
}

impl<H: HB> Probe<H> for TaggedBulk {
    fn name(&self) -> String {
        "tagged-bulk".into()
    }
    fn on_state(&self, q: &AnyQ<H>, m: &Model, unordered: bool) -> Result<u64, String> {
        if unordered {
            return Ok(0);
        }
        with_q!(q, x => TaggedBulk::run(x, m))
    }
}

/// C05: peeks, len and lookups compare nothing (peek_max at most once), from every state.
pub struct ZeroCost;

impl ZeroCost {
    fn run<Q: QueueLike>(&self, q: &Q, m: &Model) -> Result<u64, String> {
        let mut cases = 0;
        macro_rules! zero {
            ($label:expr, $max:expr, $body:expr) => {{
                reset_calls();
                let _ = $body;
                let c = cmp_count();
                cases += 1;
                if c > $max {
                    return Err(format!("{} on a {} of {} elements made {c} comparisons; at most {} allowed", $label, Q::KIND, m.len(), $max));
                }
            }};
        }
        zero!(if Q::DOUBLE { "peek_max" } else { "peek" }, if Q::DOUBLE { 1 } else { 0 }, q.q_peek_hi().map(|x| x.1.v));
        if Q::DOUBLE {
            zero!("peek_min", 0, q.q_peek_lo().map(|x| x.1.v));
        }
        zero!("len/is_empty/capacity", 0, (q.q_len(), q.q_is_empty(), q.q_capacity()));
        let mut c = q.clone();
        zero!(if Q::DOUBLE { "peek_max_mut" } else { "peek_mut" }, if Q::DOUBLE { 1 } else { 0 }, c.q_peek_hi_mut().map(|x| x.1.v));
        if Q::DOUBLE {
            zero!("peek_min_mut", 0, c.q_peek_lo_mut().map(|x| x.1.v));
        }
        for k in m.keys().copied().chain(std::iter::once(u32::MAX)) {
            zero!("get", 0, q.q_get_b(&Key(k)).map(|x| x.1.v));
            zero!("get_priority", 0, q.q_get_priority(&Item::new(k, 0)).map(|x| x.v));
            zero!("get_mut", 0, c.q_get_mut_b(&Key(k)).map(|x| x.1.v));
        }
        zero!("iter", 0, {
            let mut it = q.q_iter();
            let mut n = 0;
            while it.nx().is_some() {
                n += 1;
            }
            n
        });
        Ok(cases)
    }
}

impl<H: HB> Probe<H> for ZeroCost {
    fn name(&self) -> String {
        "zero-comparison-observers".into()
    }
    fn on_state(&self, q: &AnyQ<H>, m: &Model, _unordered: bool) -> Result<u64, String> {
        with_q!(q, x => self.run(x, m))
    }
}

/// C08 (known finding D8): the references yielded by iter_mut are not tied to the iterator, so they can
/// be collected, the iterator consumed and dropped (heap rebuilt), and a priority written AFTERWARDS.
/// The property demands that every priority written through iter_mut is the element's priority
/// afterwards and that the queue is correctly ordered again.
pub struct LateWrite {
    pub universe: Vec<u32>,
    pub prios: Vec<i32>,
}

impl LateWrite {
    fn run<Q: QueueLike>(&self, q: &Q, m: &Model) -> Result<u64, String> {
        let mut cases = 0;
        let n = m.len();
        if n < 2 {
            return Ok(0);
        }
        let hi = m.values().map(|v| v.1).max().unwrap().saturating_add(1);
        let lo = m.values().map(|v| v.1).min().unwrap().saturating_sub(1);
        for j in 0..n {
            for &np in self.prios.iter().chain([hi, lo].iter()) {
                cases += 1;
                let mut c = q.clone();
                let mut mm = m.clone();
                {
                    let mut it = c.q_iter_mut();
                    let mut v: Vec<(&mut Item, &mut Prio)> = vec![];
                    while let Some(x) = it.nx() {
                        v.push(x);
                    }
                    // the iterator is gone (as after `.collect()`, `.last()`, `.nth(k)` by value ...)
                    drop(it);
                    let (i, p) = &mut v[j];
                    **p = Prio::new(np);
                    mm.get_mut(&i.key).unwrap().1 = np;
                }
                let s = c.snap();
                check_state(&c, &s, &mm, false, &self.universe).map_err(|e| {
                    format!("`let v: Vec<_> = q.iter_mut().collect(); *v[{j}].1 = {np};` on {:?} (the iterator is consumed and dropped before the write): {e}", q.snap().slots)
                })?;
            }
        }
        Ok(cases)
    }
}

impl<H: HB> Probe<H> for LateWrite {
    fn name(&self) -> String {
        "iter_mut-collect-then-write".into()
    }
    fn on_state(&self, q: &AnyQ<H>, m: &Model, _unordered: bool) -> Result<u64, String> {
        with_q!(q, x => self.run(x, m))
    }
}

/// C16 ("clear drops them all", drain drops what it does not yield) with a priority type that has NO
/// drop glue (plain i32) and items that are tracked: every item must be dropped exactly once.
pub fn drop_accounting_plain() -> Result<u64, String> {
    use priority_queue::{DoublePriorityQueue, PriorityQueue};
    let mut cases = 0u64;
    macro_rules! run {
        ($Q:ident, $kind:expr) => {
            for n in 0..=6usize {
                for scenario in 0..10 {
                    for j in 0..=n {
                        if j > 0 && !matches!(scenario, 1 | 2 | 6 | 7) {
                            continue;
                        }
                        cases += 1;
                        registry_begin();
                        let mut allowed_leak = 0u32;
                        {
                            let mut q: $Q<Item, i32, FnvBuild> = $Q::with_default_hasher();
                            for i in 0..n {
                                q.push(Item::new(i as u32, 0), ((i * 3) % 5) as i32);
                            }
                            match scenario {
                                0 => q.clear(),
                                1 => {
                                    // drain: j from the front, the rest dropped with the iterator
                                    let mut d = q.drain();
                                    for _ in 0..j {
                                        drop(d.next());
                                    }
                                }
                                2 => {
                                    // drain leaked after j elements: the rest is owned by the leaked iterator
                                    let mut d = q.drain();
                                    for _ in 0..j {
                                        drop(d.next());
                                    }
                                    allowed_leak = (n - j) as u32;
                                    std::mem::forget(d);
                                }
                                3 => q.retain(|_, _| false),
                                4 => while q.pop_any().is_some() {},
                                5 => {
                                    q.clear();
                                    q.push(Item::new(100, 0), 1);
                                    q.clear();
                                }
                                6 => {
                                    let mut it = q.into_iter();
                                    for _ in 0..j {
                                        drop(it.next());
                                    }
                                    q = $Q::with_default_hasher();
                                }
                                7 => {
                                    let mut it = q.into_sorted_iter();
                                    for _ in 0..j {
                                        drop(it.next());
                                    }
                                    q = $Q::with_default_hasher();
                                }
                                8 => {
                                    let mut o: $Q<Item, i32, FnvBuild> = $Q::with_default_hasher();
                                    o.push(Item::new(0, 9), 7);
                                    o.push(Item::new(50, 9), 7);
                                    q.append(&mut o);
                                    q.clear();
                                }
                                _ => {
                                    let c = q.clone();
                                    drop(c);
                                }
                            }
                            if scenario != 9 && scenario != 8 && (q.len() != 0 || q.iter().count() != 0) && scenario < 6 {
                                registry_end();
                                return Err(format!("{}: scenario {scenario} on {n} elements left {} elements", $kind, q.len()));
                            }
                        }
                        let (created, live, dd) = registry_end();
                        if dd > 0 {
                            return Err(format!("{} with i32 priorities, scenario {scenario} (n={n}, j={j}): {dd} item(s) dropped twice", $kind));
                        }
                        if live != allowed_leak {
                            return Err(format!(
                                "{} with i32 priorities (no drop glue), scenario {scenario} ({}; n={n}, j={j}): {live} of {created} item(s) were never dropped (allowed: {allowed_leak})",
                                $kind,
                                ["clear", "drain partially consumed then dropped", "drain leaked", "retain none", "pop all", "clear, push, clear", "into_iter partially consumed", "into_sorted_iter partially consumed", "append then clear", "clone dropped"][scenario]
                            ));
                        }
                    }
                }
            }
        };
    }
    trait PopAny<T> {
        fn pop_any(&mut self) -> Option<T>;
    }
    impl PopAny<(Item, i32)> for PriorityQueue<Item, i32, FnvBuild> {
        fn pop_any(&mut self) -> Option<(Item, i32)> {
            self.pop()
        }
    }
    impl PopAny<(Item, i32)> for DoublePriorityQueue<Item, i32, FnvBuild> {
        fn pop_any(&mut self) -> Option<(Item, i32)> {
            self.pop_min()
        }
    }
    run!(PriorityQueue, "PriorityQueue");
    run!(DoublePriorityQueue, "DoublePriorityQueue");
    Ok(cases)
}
