//! State probes: program enumerators that run once on every unique state.

use crate::explore::*;
use crate::ops::*;
use crate::queue::*;
use crate::types::*;

pub fn replay_probe<H: HB>(c: &Case, q: &AnyQ<H>, m: &Model, unordered: bool) -> Result<(), String> {
    let name = c.probe.clone().unwrap_or_default();
    for p in all_probes::<H>(&c.prop) {
        if name == "state-probes" || p.name() == name {
            p.on_state(q, m, unordered)?;
        }
    }
    Ok(())
}

pub fn all_probes<H: HB>(_prop: &str) -> Vec<Box<dyn Probe<H>>> {
    vec![]
}
