//! Instrumented item / priority types, hashers, fault injector and live-object registry.
//!
//! Everything the crate under test calls back into (Ord::cmp, Hash, Eq, Clone, Drop,
//! closures, feeding iterators) is owned by the harness, so the explorer can count it
//! and can make the k-th call of any class panic.

use std::borrow::Borrow;
use std::cell::{Cell, RefCell};
use std::cmp::Ordering;
use std::hash::{BuildHasher, BuildHasherDefault, Hash, Hasher};
use std::sync::atomic::{AtomicU64, Ordering as AO};

// ---------------------------------------------------------------------------------------------
// callback classes, counters and fault injection

pub const C_CMP: usize = 0;
pub const C_HASH: usize = 1;
pub const C_EQ: usize = 2;
pub const C_CLONE: usize = 3;
pub const C_CLOSURE: usize = 4;
pub const C_ITER: usize = 5;
pub const NCLASS: usize = 6;
pub const CLASS_NAMES: [&str; NCLASS] = ["cmp", "hash", "eq", "clone", "closure", "iter_next"];

/// Payload of an injected panic (so the panic hook and the oracles can tell it from a real one).
#[derive(Debug, Clone, Copy)]
pub struct InjectedFault {
    pub class: usize,
    pub index: u64,
}

thread_local! {
    static CALLS: Cell<[u64; NCLASS]> = const { Cell::new([0; NCLASS]) };
    /// (class, index): the index-th call (0-based, since the last `reset_calls`) of `class` panics.
    static ARMED: Cell<Option<(usize, u64)>> = const { Cell::new(None) };
    static FIRED: Cell<bool> = const { Cell::new(false) };
}

#[inline]
pub fn fault_point(class: usize) {
    CALLS.with(|c| {
        let mut a = c.get();
        let n = a[class];
        a[class] = n + 1;
        c.set(a);
        if let Some((cl, k)) = ARMED.with(|x| x.get()) {
            if cl == class && k == n {
                ARMED.with(|x| x.set(None));
                FIRED.with(|x| x.set(true));
                std::panic::panic_any(InjectedFault { class, index: n });
            }
        }
    });
}

pub fn reset_calls() {
    CALLS.with(|c| c.set([0; NCLASS]));
}
pub fn calls() -> [u64; NCLASS] {
    CALLS.with(|c| c.get())
}
pub fn cmp_count() -> u64 {
    CALLS.with(|c| c.get()[C_CMP])
}
thread_local! {
    static CMP_BASE: Cell<u64> = const { Cell::new(0) };
}
/// Start counting the comparisons of "the operation itself" from here.
pub fn mark_cmp() {
    CMP_BASE.with(|c| c.set(cmp_count()));
}
pub fn cmps_since_mark() -> u64 {
    cmp_count() - CMP_BASE.with(|c| c.get())
}
pub fn arm(class: usize, index: u64) {
    FIRED.with(|x| x.set(false));
    ARMED.with(|x| x.set(Some((class, index))));
}
pub fn disarm() -> bool {
    ARMED.with(|x| x.set(None));
    FIRED.with(|x| x.replace(false))
}

// ---------------------------------------------------------------------------------------------
// live-object registry (double drop / leak detection)

#[derive(Default)]
pub struct Registry {
    pub enabled: bool,
    /// ids below `base` belong to earlier tracking windows and are ignored
    base: u64,
    /// state of id `base + i`: 1 = live, 2 = dropped
    state: Vec<u8>,
    pub double_drops: u32,
    pub created: u32,
}

thread_local! {
    static REG: RefCell<Registry> = RefCell::new(Registry::default());
}

fn reg_new() -> u64 {
    REG.with(|r| {
        // try_borrow: a Drop running while the registry is being inspected must never panic
        if let Ok(mut r) = r.try_borrow_mut() {
            if r.enabled {
                r.state.push(1);
                r.created += 1;
                return r.base + r.state.len() as u64; // never 0
            }
        }
        0
    })
}

fn reg_drop(id: u64) {
    if id == 0 {
        return;
    }
    REG.with(|r| {
        if let Ok(mut r) = r.try_borrow_mut() {
            if id <= r.base {
                return; // object from an earlier tracking window
            }
            let i = (id - r.base - 1) as usize;
            match r.state.get(i).copied() {
                Some(1) => r.state[i] = 2,
                Some(2) => r.double_drops += 1,
                _ => {}
            }
        }
    })
}

/// Start a tracking window: every Item/Prio created or cloned from now on gets a fresh id.
pub fn registry_begin() {
    REG.with(|r| {
        let mut r = r.borrow_mut();
        r.enabled = true;
        r.base += r.state.len() as u64 + 1;
        r.state.clear();
        r.double_drops = 0;
        r.created = 0;
    })
}

/// Suspend / resume id assignment inside a window (objects created while paused are untracked).
pub fn registry_pause(paused: bool) {
    REG.with(|r| r.borrow_mut().enabled = !paused)
}

/// End the window; returns (created, still_live, double_drops).
pub fn registry_end() -> (u32, u32, u32) {
    REG.with(|r| {
        let mut r = r.borrow_mut();
        r.enabled = false;
        let live = r.state.iter().filter(|&&s| s == 1).count() as u32;
        (r.created, live, r.double_drops)
    })
}

// ---------------------------------------------------------------------------------------------
// Item: identity = key; payload is ignored by Eq/Hash

pub struct Item {
    pub key: u32,
    pub payload: u8,
    id: u64,
}

impl Item {
    #[inline]
    pub fn new(key: u32, payload: u8) -> Item {
        Item { key, payload, id: reg_new() }
    }
}
impl std::fmt::Debug for Item {
    fn fmt(&self, f: &mut std::fmt::Formatter) -> std::fmt::Result {
        write!(f, "k{}/{}", self.key, self.payload)
    }
}
impl Clone for Item {
    fn clone(&self) -> Item {
        fault_point(C_CLONE);
        Item::new(self.key, self.payload)
    }
}
impl Drop for Item {
    #[inline]
    fn drop(&mut self) {
        reg_drop(self.id)
    }
}
impl PartialEq for Item {
    fn eq(&self, o: &Item) -> bool {
        fault_point(C_EQ);
        self.key == o.key
    }
}
impl Eq for Item {}
impl Hash for Item {
    fn hash<S: Hasher>(&self, s: &mut S) {
        fault_point(C_HASH);
        s.write_u32(self.key)
    }
}

/// Borrowed form of an item: hashes and compares exactly like `Item`.
#[derive(Debug)]
#[repr(transparent)]
pub struct Key(pub u32);
impl PartialEq for Key {
    fn eq(&self, o: &Key) -> bool {
        fault_point(C_EQ);
        self.0 == o.0
    }
}
impl Eq for Key {}
impl Hash for Key {
    fn hash<S: Hasher>(&self, s: &mut S) {
        fault_point(C_HASH);
        s.write_u32(self.0)
    }
}
impl Borrow<Key> for Item {
    fn borrow(&self) -> &Key {
        // SAFETY: Key is repr(transparent) over u32 and `key` is a u32 field.
        unsafe { &*(&self.key as *const u32 as *const Key) }
    }
}

// ---------------------------------------------------------------------------------------------
// Prio: a total order on `v`; every comparison goes through `cmp`

pub struct Prio {
    pub v: i32,
    /// identity of the value, ignored by Ord/Eq (like a payload of the priority)
    pub tag: u8,
    id: u64,
}
impl Prio {
    #[inline]
    pub fn new(v: i32) -> Prio {
        Prio { v, tag: 0, id: reg_new() }
    }
    pub fn tagged(v: i32, tag: u8) -> Prio {
        Prio { v, tag, id: reg_new() }
    }
}
impl std::fmt::Debug for Prio {
    fn fmt(&self, f: &mut std::fmt::Formatter) -> std::fmt::Result {
        write!(f, "{}", self.v)
    }
}
impl Clone for Prio {
    fn clone(&self) -> Prio {
        fault_point(C_CLONE);
        Prio::tagged(self.v, self.tag)
    }
}
impl Drop for Prio {
    #[inline]
    fn drop(&mut self) {
        reg_drop(self.id)
    }
}
impl Ord for Prio {
    #[inline]
    fn cmp(&self, o: &Prio) -> Ordering {
        fault_point(C_CMP);
        self.v.cmp(&o.v)
    }
}
impl PartialOrd for Prio {
    #[inline]
    fn partial_cmp(&self, o: &Prio) -> Option<Ordering> {
        Some(self.cmp(o))
    }
}
impl PartialEq for Prio {
    fn eq(&self, o: &Prio) -> bool {
        self.v == o.v
    }
}
impl Eq for Prio {}

// ---------------------------------------------------------------------------------------------
// hashers

/// FNV-1a, deterministic, no keys: the "no_std-friendly" hasher.
#[derive(Clone)]
pub struct Fnv(u64);
impl Default for Fnv {
    fn default() -> Fnv {
        Fnv(0xcbf29ce484222325)
    }
}
impl Hasher for Fnv {
    fn finish(&self) -> u64 {
        self.0
    }
    fn write(&mut self, bytes: &[u8]) {
        for b in bytes {
            self.0 ^= *b as u64;
            self.0 = self.0.wrapping_mul(0x100000001b3);
        }
    }
}
pub type FnvBuild = BuildHasherDefault<Fnv>;

/// SipHash-1-3 with the all-zero key (what `DefaultHasher::default()` is).
pub type FixedSip = BuildHasherDefault<std::collections::hash_map::DefaultHasher>;

/// Every item hashes to the same value.
#[derive(Clone, Default, Debug)]
pub struct CollideAll;
pub struct CollideHasher;
impl Hasher for CollideHasher {
    fn finish(&self) -> u64 {
        0
    }
    fn write(&mut self, _: &[u8]) {}
}
impl BuildHasher for CollideAll {
    type Hasher = CollideHasher;
    fn build_hasher(&self) -> CollideHasher {
        CollideHasher
    }
}

/// Partial collisions: the hash is the sum of the written bytes modulo 4, so items fall into four
/// classes of equal 64-bit hashes (what a poor user-written Hash gives, e.g. one that hashes a length).
#[derive(Clone, Default, Debug)]
pub struct CollideSome;
pub struct CollideSomeHasher(u64);
impl Hasher for CollideSomeHasher {
    fn finish(&self) -> u64 {
        self.0 % 4
    }
    fn write(&mut self, bytes: &[u8]) {
        for b in bytes {
            self.0 = self.0.wrapping_add(*b as u64);
        }
    }
}
impl BuildHasher for CollideSome {
    type Hasher = CollideSomeHasher;
    fn build_hasher(&self) -> CollideSomeHasher {
        CollideSomeHasher(0)
    }
}
impl HB for CollideSome {
    const NAME: &'static str = "collide-some(4 classes)";
}

/// Hasher keyed by VERIF_SEED (set once at start-up).
pub static SEED: AtomicU64 = AtomicU64::new(0);
#[derive(Clone, Debug)]
pub struct Seeded(u64);
impl Default for Seeded {
    fn default() -> Seeded {
        Seeded(SEED.load(AO::Relaxed))
    }
}
pub struct SeededHasher(u64);
impl Hasher for SeededHasher {
    fn finish(&self) -> u64 {
        // final avalanche (splitmix64)
        let mut z = self.0.wrapping_add(0x9e3779b97f4a7c15);
        z = (z ^ (z >> 30)).wrapping_mul(0xbf58476d1ce4e5b9);
        z = (z ^ (z >> 27)).wrapping_mul(0x94d049bb133111eb);
        z ^ (z >> 31)
    }
    fn write(&mut self, bytes: &[u8]) {
        for b in bytes {
            self.0 = (self.0 ^ *b as u64).wrapping_mul(0x100000001b3).rotate_left(17);
        }
    }
}
impl BuildHasher for Seeded {
    type Hasher = SeededHasher;
    fn build_hasher(&self) -> SeededHasher {
        SeededHasher(self.0 ^ 0xcbf29ce484222325)
    }
}

pub type StdRandom = std::collections::hash_map::RandomState;

/// Bound bundle for the hashers the explorers are generic over.
pub trait HB: BuildHasher + Default + Clone + Send + Sync + std::fmt::Debug + 'static {
    const NAME: &'static str;
}
impl HB for FnvBuild {
    const NAME: &'static str = "fnv(BuildHasherDefault)";
}
impl HB for FixedSip {
    const NAME: &'static str = "sip-fixed-key";
}
impl HB for CollideAll {
    const NAME: &'static str = "collide-all";
}
impl HB for Seeded {
    const NAME: &'static str = "seeded(VERIF_SEED)";
}
impl HB for StdRandom {
    const NAME: &'static str = "std RandomState";
}

// ---------------------------------------------------------------------------------------------
// iterator adaptor with a chosen size_hint, counted `next`, optional fault

pub struct Hinted<T> {
    pub inner: std::vec::IntoIter<T>,
    pub lo: usize,
    pub hi: Option<usize>,
    pub consumed: usize,
}
impl<T> Hinted<T> {
    pub fn new(v: Vec<T>, lo: usize, hi: Option<usize>) -> Hinted<T> {
        Hinted { inner: v.into_iter(), lo, hi, consumed: 0 }
    }
}
impl<T> Iterator for Hinted<T> {
    type Item = T;
    fn next(&mut self) -> Option<T> {
        fault_point(C_ITER);
        let r = self.inner.next();
        if r.is_some() {
            self.consumed += 1;
        }
        r
    }
    /// Stays a *legal* hint while the iterator is consumed: the lower bound shrinks with
    /// what was already yielded, the upper bound only ever over-estimates.
    fn size_hint(&self) -> (usize, Option<usize>) {
        (self.lo.saturating_sub(self.consumed), self.hi)
    }
}

// ---------------------------------------------------------------------------------------------
// serde (C15): an item is [key, payload], a priority is an integer

impl serde::Serialize for Item {
    fn serialize<S: serde::Serializer>(&self, s: S) -> Result<S::Ok, S::Error> {
        (self.key, self.payload).serialize(s)
    }
}
impl<'de> serde::Deserialize<'de> for Item {
    fn deserialize<D: serde::Deserializer<'de>>(d: D) -> Result<Item, D::Error> {
        let (k, p) = <(u32, u8)>::deserialize(d)?;
        Ok(Item::new(k, p))
    }
}
impl serde::Serialize for Prio {
    fn serialize<S: serde::Serializer>(&self, s: S) -> Result<S::Ok, S::Error> {
        self.v.serialize(s)
    }
}
impl<'de> serde::Deserialize<'de> for Prio {
    fn deserialize<D: serde::Deserializer<'de>>(d: D) -> Result<Prio, D::Error> {
        Ok(Prio::new(i32::deserialize(d)?))
    }
}

/// Iterator wrapper that hides its length (so a SeqAccess built on it reports no size hint).
pub struct NoHint<I>(pub I);
impl<I: Iterator> Iterator for NoHint<I> {
    type Item = I::Item;
    fn next(&mut self) -> Option<I::Item> {
        self.0.next()
    }
    fn size_hint(&self) -> (usize, Option<usize>) {
        (0, None)
    }
}

// ---------------------------------------------------------------------------------------------
// allocation-failure injection (C17: try_reserve must fail cleanly, whichever allocation fails)

pub struct FaultAlloc;

thread_local! {
    /// -1 = disarmed; k >= 0: the k-th allocation (alloc / alloc_zeroed / growing realloc) from now on
    /// on this thread returns null, once
    static ALLOC_FAIL_IN: Cell<i64> = const { Cell::new(-1) };
    static ALLOC_FIRED: Cell<bool> = const { Cell::new(false) };
}

#[inline]
fn alloc_should_fail() -> bool {
    ALLOC_FAIL_IN.with(|c| {
        let v = c.get();
        if v < 0 {
            false
        } else if v == 0 {
            c.set(-1);
            ALLOC_FIRED.with(|f| f.set(true));
            true
        } else {
            c.set(v - 1);
            false
        }
    })
}

unsafe impl std::alloc::GlobalAlloc for FaultAlloc {
    unsafe fn alloc(&self, l: std::alloc::Layout) -> *mut u8 {
        if alloc_should_fail() {
            return std::ptr::null_mut();
        }
        unsafe { std::alloc::System.alloc(l) }
    }
    unsafe fn alloc_zeroed(&self, l: std::alloc::Layout) -> *mut u8 {
        if alloc_should_fail() {
            return std::ptr::null_mut();
        }
        unsafe { std::alloc::System.alloc_zeroed(l) }
    }
    unsafe fn dealloc(&self, p: *mut u8, l: std::alloc::Layout) {
        unsafe { std::alloc::System.dealloc(p, l) }
    }
    unsafe fn realloc(&self, p: *mut u8, l: std::alloc::Layout, new: usize) -> *mut u8 {
        if new > l.size() && alloc_should_fail() {
            return std::ptr::null_mut();
        }
        unsafe { std::alloc::System.realloc(p, l, new) }
    }
}

/// The k-th allocation of this thread from now on fails (once).
pub fn arm_alloc_failure(k: i64) {
    ALLOC_FIRED.with(|f| f.set(false));
    ALLOC_FAIL_IN.with(|c| c.set(k));
}
/// Disarm; returns whether an allocation was made to fail.
pub fn disarm_alloc_failure() -> bool {
    ALLOC_FAIL_IN.with(|c| c.set(-1));
    ALLOC_FIRED.with(|f| f.replace(false))
}
