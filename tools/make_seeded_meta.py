#!/usr/bin/env python3
"""Builds seeded/<id>/meta.json and seeded/MATRIX.md from the eval-final.txt files."""
import json, os, re, glob

ROOT = "/verif/seeded"
PROPS = [f"C{i:02d}" for i in range(1, 19)]
REVERTS = {
 "R-D1": ("C13", "4df9777", "revert of the size_hint fix: adaptor .len() over iter/into_iter/drain/sorted panics"),
 "R-D2": ("C09", "13fffe7", "revert of the iter_mut cursor fix: next/next_back/next yields an element twice, fresh next_back underflows"),
 "R-D3": ("C15", "7cbd808", "revert of the serde fix: a repeated item in the input panics in heap_build"),
 "R-D4": ("C07", "d70d65d", "revert of the reserve fix: a legal size_hint (0, Some(usize::MAX)) panics with capacity overflow"),
 "R-D5": ("C07", "980476f", "revert of the extend fix: on the rebuild strategy the stored item is replaced; needs a receiver >= 8 and a hint >= 17"),
 "R-D6": ("C10", "0dffcd6", "revert of the sift-up fix: a panic in Ord::cmp during push/change_priority, then pop/remove: out-of-bounds write (abort)"),
 "R-D7": ("C10", "b7147e9", "revert of the checked qp lookup: caught panic in a retain predicate, append, append, push of a present item (debug-assertion builds): out-of-bounds read (abort)"),
}

ASSESS = {
 "C05-r8-m1": "An unwind guard in PriorityQueue::change_priority_by rebuilds the whole heap (about n comparisons) when the priority setter PANICS and the panic unwinds through the call. Ordinary calls behave and cost exactly as before. C05 bounds the cost of the operations, not of what runs while a panic of user code unwinds; the rebuilt heap is valid, so there is no safety consequence for C10 either. Not reported, not claimed.",
 "C03-r7-m1": "DoublePriorityQueue::change_priority rewritten as remove + push. Without a fault every observable is identical; the targeted element is lost only if Ord::cmp panics during the re-heapify inside remove and the panic is caught (the pair is dropped while unwinding, before push runs). After such an event length and contents are unspecified (C10) and there is no memory-safety consequence, so C10 is silent too. Outside C03 as quantified; not reported, not claimed.",
 "C13-r7-m1": "PriorityQueue's sorted iterator sifts the root down with a hole and no drop guard. Identical without faults; after a caught panic in Ord::cmp inside next() one heap slot is duplicated. C13 is quantified over fault-free use and is silent; the continued use of the iterator writes out of bounds, which C10 reports through its Consume operation (sorted iteration resumed after the caught panic).",
 "C13-r7-m2": "DoublePriorityQueue's sorted iterator keeps its own `remaining` counter and decrements it before popping: differs only when the first comparison of next_back panics and is caught (len() one too low, one element never yielded). No safety consequence (C10 silent), outside C13 as quantified (fault-free use). Not reported, not claimed.",
 "C16-r7-m2": "clear() returns early when is_empty(). A no-op in every state reachable without a caught panic; it only differs on a queue whose map and tables were de-synchronised by a panic in a retain predicate followed by pops whose panics were caught too. No safety consequence (the stale elements are dropped with the queue). Outside C16 as quantified; not reported, not claimed.",
 "C09-r5-m1": "Two edits: PriorityQueue::IterMut walks the heap vector (identical multiset while heap and map agree) and bubble_up goes back to moving while comparing (revert of the D6 repair). Only after a caught panic in a comparison does the heap vector name one slot twice, and iter_mut then yields it twice. The second edit alone breaks C10, whose fault enumeration reports it (see evals/r5-cross.txt); C09 is quantified over fault-free histories. Not reported by C09, not claimed.",
 "C09-r5-m2": "Two edits: DoublePriorityQueue::IterMut takes its end from `len()` (the size counter) and push counts the element after the sift-up (partial revert of D6). Visible only after a caught panic in a comparison inside push; the second edit alone breaks C10, which reports it (evals/r5-cross.txt). Outside C09 as quantified (fault-free histories).",
 "C17-r5-m1": "Two edits: shrink_to_fit truncates heap/qp to `size`, and PriorityQueue::push counts the element after the sift-up (partial revert of D6). The truncation is a no-op on every state reachable without a caught panic; the second edit alone breaks C10, which reports it (evals/r5-cross.txt). Outside C17 as quantified (reachable states of fault-free histories; its failure paths are allocation failures).",
 "C13-r5-m2": "The serde visitor adds a second heap/qp entry for an adjacent repeated item. The queue is broken at deserialisation time, which C15 and C04 report (serde-arbitrary-input: len() = 2, map holds 1). C13 is quantified over states reachable through the API of a consistent queue and does not deserialise hostile input; the sorted-iterator symptom is a consequence of the C15 violation.",
 "C18-r4-m2": "On equal lengths `append` breaks the tie by `capacity()`. The change violates the append clash rule (reported by C07 on the pairs of explored states) and makes capacity visible (reported by C17's twin differential). Its dependence on the HASHER exists only through `capacity()` after removals (tombstones cluster differently; ~20 elements and a removal are needed), which C18's bounds do not reach: a bound limitation of C18, stated here, not a detection by C18.",
 "C05-r4-m2": "Swapped arguments of the push-versus-rebuild heuristic on the (min, None) hint branch of PriorityQueue::extend: a small batch on a large queue is rebuilt in O(n) instead of pushed. extend is not among the operations C05 bounds (it lists single-element operations and the bulk operations that re-establish order by construction, append, retain, iter_mut drop, conversions). Results stay correct. Not reported, not claimed.",
 "C14-r4-m2": "Moves `size += 1` of push behind the sift-up in both queues (partial revert of D6): only visible after a caught panic in a comparison; C10's business, outside C14 as quantified.",
 "C16-r4-m1": "`drain` computes the new size as `size - iter.len()`: identical on every consistent store; differs only after a caught panic in a retain predicate. Reported by C10 (the continuation reads out of bounds), outside C16 as quantified (fault-free histories).",
 "C11-r3-m2": "Moves `size += 1` of PriorityQueue::push back behind the sift-up (partial revert of D6): only visible after a caught panic in a comparison; reported by C10 (safety), outside C11 as quantified (well-behaved user code).",
 "C12-r3-m2": "Deserialising a sequence that repeats an item now keeps the LAST item value instead of the first. No listed property fixes which item value deserialisation keeps for a repeated item (C15 speaks of priorities, C12 of push/change_priority/push_increase/push_decrease); not a violation of C12 as stated, not reported, not claimed.",
 "C16-r3-m2": "Needs an element whose Drop panics inside clear(); Drop is not among the user callbacks the properties quantify over. Not reported, not claimed.",
 "C01-r2-m2": "Needs a panic in Ord::cmp caught by the caller. After such an event the order and the reported length are unspecified (C10); C01 quantifies over histories with well-behaved user code. The change is reported by C10 (safety), not by C01, by design.",
 "C13-r2-m2": "Same change as C01-r2-m2 on the DoublePriorityQueue: only visible after a caught panic in a comparison; reported by C10, outside C13 as quantified.",
 "C16-r2-m2": "Only visible after a caught panic in a retain predicate; drain then panics (safely) instead of emptying the queue. No memory-safety consequence, so C10 is silent; C16 quantifies over fault-free histories. Not detected, and not claimed.",
}

rows = []
for d in sorted(os.listdir(ROOT)):
    p = os.path.join(ROOT, d)
    if not os.path.isdir(p):
        continue
    evdir = os.path.join(p, "evals")
    files = sorted(glob.glob(os.path.join(evdir, "*.txt")))
    if not files:
        continue
    txt_all = {os.path.basename(f): open(f).read() for f in files}
    def res(key):
        for name, txt in txt_all.items():
            m = re.search(r"RESULT " + re.escape(key) + r": (.*)", txt)
            if m:
                return m.group(1).strip()
        return "not run"
    caught, machinery, ran = set(), set(), set()
    for name, txt in txt_all.items():
        for pr in PROPS:
            for m in re.finditer(rf"RESULT check {pr} quick: exit=(\d+)", txt):
                ran.add(pr)
                if m.group(1) == "1":
                    caught.add(pr)
                elif m.group(1) != "0":
                    machinery.add(pr)
    machinery -= caught
    final = txt_all.get("final-own-property.txt", "")
    if d in REVERTS:
        prop, commit, needs = REVERTS[d]
        origin = f"revert of fix commit {commit} in /repo"
    else:
        prop = d.split("-")[0]
        rnd = "eighth" if "-r8-" in d else "seventh" if "-r7-" in d else "sixth" if "-r6-" in d else "fifth" if "-r5-" in d else "fourth" if "-r4-" in d else ("third" if "-r3-" in d else ("second" if "-r2-" in d else "first"))
        origin = f"written by a fresh sub-agent ({rnd} round) that was given only the text of {prop} and a scratch worktree"
        notes = os.path.join(p, "notes.md")
        needs = open(notes).read().strip() if os.path.exists(notes) else ""
    m = re.search(rf"RESULT check {prop} quick: exit=(\d+)", final)
    own_final = None if not m else (m.group(1) == "1")
    meta = {
        "id": d,
        "breaks_property": prop,
        "origin": origin,
        "what_it_is_and_what_it_needs_to_manifest": needs,
        "confirmed": {
            "existing_suite_with_the_change (cargo test --workspace --offline)": res("suite-with-patch"),
            "demo_without_the_change": res("demo-without-patch"),
            "demo_with_the_change": res("demo-with-patch"),
        },
        "what_was_run": "tools/eval_seeded.sh seeded/" + d + " \"<checks>\" quick (scratch worktree of /repo + scratch copy of the harness; /repo untouched); raw outputs in evals/: pass1-all-checks (all 18 quick checks with the harness as it was when the change arrived), reeval*/r3eval (targeted runs after strengthening), final-own-property (its own property with the final harness)",
        "quick_checks_that_reported_it (union over all runs, a lower bound)": sorted(caught),
        "quick_checks_run": sorted(ran),
        "reported_by_its_own_property_with_the_final_harness": own_final,
    }
    if d in ASSESS:
        meta["assessment"] = ASSESS[d]
    json.dump(meta, open(os.path.join(p, "meta.json"), "w"), indent=1)
    rows.append((d, prop, sorted(caught), sorted(machinery), sorted(ran), own_final))

with open(os.path.join(ROOT, "MATRIX.md"), "w") as f:
    f.write("# Seeded changes x quick checks\n\n`X` = the check exited 1 with a VIOLATION line and a replay that reproduced twice, in at least one of the runs recorded under `<change>/evals/`; `.` = run and silent; blank = not run against this change (the third to eighth rounds were run against their own property, C03 and C04 only). Entries are a lower bound: the all-checks pass was made with the harness as it was when the change arrived, later strengthening only adds detections. Column `own` = reported by the check of the property it was written against, with the FINAL harness.\nGenerated by tools/make_seeded_meta.py.\n\n")
    f.write("| change | for | " + " | ".join(p[1:] for p in PROPS) + " | own |\n")
    f.write("|---|---|" + "---|" * len(PROPS) + "---|\n")
    own = 0
    for d, prop, caught, mach, ran, own_final in rows:
        cells = ["X" if p in caught else ("." if p in ran else "") for p in PROPS]
        own += bool(own_final)
        f.write(f"| {d} | {prop} | " + " | ".join(cells) + f" | {'yes' if own_final else ('NO' if own_final is False else '?')} |\n")
    f.write(f"\n{own} of {len(rows)} changes are reported by the check of the property they were written against (final harness). Not reported by their own property (see meta.json `assessment`: out of the property's scope by design, or, for C18-r4-m2, beyond C18's bound while reported by C07 and C17): " + ", ".join(r[0] for r in rows if r[5] is False) + ".\n")
print("rows", len(rows))
