#!/usr/bin/env python3
"""Regenerates /verif/MANIFEST.json from the table below."""
import json, subprocess, sys

IMPLEMENTED = {
 "C01": ("E1 closed BFS to fixpoint + E2 seeded deep trees, lock-step reference map, heap invariant from the table hook",
         "Every state reachable over a bounded item x priority universe from every constructor, and every single operation on every member of the seed families (all 0/1 priority vectors up to 16 elements, all permutations up to 8, two-breakpoint vectors up to 33), is executed on the real PriorityQueue; after every transition peek/pop/pop_if/peek_mut are compared with the maximum of a reference map and the max-heap invariant is read through the hook. Exhaustive within the stated universe, not a proof for unbounded sizes."),
 "C02": ("E1 closed BFS + E2 seeded deep trees on DoublePriorityQueue, both extraction ends, min-max-heap invariant",
         "Same exploration for DoublePriorityQueue: both ends after every transition, sizes 1,2,3 in the closure, seeds of 15..33 elements so that sifting crosses two levels of the same parity; a full drain from each end of every unique state checks every interleaving position by position."),
 "C03": ("E1 closed BFS with payload-carrying items and borrowed-key lookups, whole-map comparison after every transition",
         "All return values and all observers (len,is_empty,get,get_priority,get_mut,iter,into_iter,into_vec) are compared with the reference map for every key of the universe after every transition of the closure and of the deep seeds."),
 "C04": ("E1/E2 exploration in the checked profile (std unchecked-access preconditions abort), union alphabet incl. leaked guards and capacity calls, worker subprocess with abort capture",
         "The union alphabet (including iter_mut/drain guards that are leaked and then followed by arbitrary continuations) is explored with debug assertions on: any caught panic other than the documented capacity overflow, any abort of the worker (out-of-bounds unchecked access), or inconsistent index tables in any reachable state is a violation. Thorough additionally re-runs a reduced-bound enumeration under Miri (aliasing models off) as a per-execution UB monitor."),
 "C06": ("every next/next_back program of length n+2 on the sorted iterators from every reachable state",
         "From every state of the closure (reached also through iter_mut from either end and retain_mut), every seed of up to 17 (33) elements and every state one operation away from a seed: into_sorted_iter/into_sorted_vec and the ascending/descending vectors; for the double-ended sorted iterator all 2^(n+2) programs (a structured family beyond 12 calls) with len() read before every call."),
 "C07": ("exhaustive enumeration of input vectors x legal size_hints (differential over hints), all ordered pairs of explored states for append, deep receivers on both sides of the rebuild threshold",
         "All vectors of <=4 pairs with repeats for From<Vec>/FromIterator, every legal size_hint from a menu incl. usize::MAX; extend on every explored state and on receivers of 8..33 elements with short and >=17-pair sequences so both internal strategies run on the same input and must agree; append on all ordered pairs of explored states."),
 "C09": ("every next/next_back program of length <= n+3 on iter_mut from every reachable state, references kept alive and written through, address distinctness",
         "All programs over {next,next_back} (and nth/nth_back programs) with len()/size_hint() read before every call, directly and through &mut queue, plus the std adaptor matrix; all yielded references are kept alive, compared by address, checked against one underlying sequence and written through at the end. Thorough additionally under Miri at a reduced bound."),
 "C10": ("fault enumeration: panic injected at every k-th user callback of every operation from every explored state, BFS over continuations, checked profile + drop registry",
         "For every explored state, operation, callback class (cmp, hash, eq, clone, closure, iterator next) and index below the number of callbacks the operation makes, the operation is re-run with a panic at exactly that callback; iterators are also leaked. All continuations of the post-fault state are explored to a depth bound. Only safety is judged: worker abort (out-of-bounds precondition), double drop, leak. Thorough additionally under Miri at a reduced bound."),
 "C11": ("E1 closed BFS + E2 with push_increase/push_decrease for every item x offered priority",
         "Both operations for every (item, priority) - lower, equal, higher, absent - from every reachable state and on every position of the deep seeds; the whole map and the order invariant are compared after each."),
 "C12": ("E1 closed BFS over items with a payload ignored by Eq/Hash; update keys carry a foreign payload, borrowed-key lookups",
         "Inserted items carry payload A, every lookup/update key carries a payload that must never be observed, get_mut/peek_mut/iter_mut write payload B; payloads are part of the state and compared after every transition."),
 "C13": ("every next/next_back program of length n+2 on iter/into_iter/drain/sorted iterators from every reachable state + std adaptor matrix",
         "All programs (next/next_back exhaustively, nth/nth_back after every short prefix) with len() and size_hint() read before every call; double-ended iterators must take from the two ends of one sequence; adaptor compositions (take, skip, zip, peekable, rev, enumerate, step_by) must report a len() equal to what they yield and must not panic. Thorough additionally under Miri at a reduced bound."),
 "C15": ("serde round trip of every explored state through 3 channels into both kinds + every pair sequence of <=4 pairs with repeats as input",
         "Round trips through JSON text and serde's non-self-describing SeqDeserializer (with and without length hint) from every state of the closure and the deep seeds, result == source, valid, every operation at depth 1; every small pair sequence (repeats included) must give Err or a valid queue, never a panic."),
 "C16": ("every drain consumption pattern (front j, back l, drop/forget) and clear from every reachable state; emptied queue vs fresh queue on all depth-2 operation sequences",
         "After clear or any drain pattern (incl. leaked) the tables must equal those of a fresh queue and all depth-2 continuations (refills by push and by extend) must give identical returns and tables; queues emptied in seven ways and refilled by pushes to every seed tree of 6..10 elements then run every operation under the lock-step oracle."),
}

IMPLEMENTED.update({
 "C05": ("comparison counter as oracle: maximum over every transition of the closed/seeded explorations per (operation, n), plus a fully enumerated grid of sizes x patterns x operations x target positions up to 2^16 (quick) / 2^20 (thorough)",
         "Every Ord::cmp goes through the harness. (a) The exact maximum number of comparisons over ALL transitions of the small-scope explorations is checked against A*levels+B (single-element operations), C*n+D (bulk) and 0/1 (peeks, lookups). (b) On a finite grid n in {2^j-1,2^j,2^j+1} x 5 priority patterns x every single-element operation x root/children/last/first-leaf/first-and-last-of-every-level x {new minimum, new maximum, unchanged}, remove additionally at exact current heap positions (incl. the last three slots, from both ends), and for the bulk operations with a flatness test of cost/n. A bounded enumeration decides the stated bound at every n of the ladder; it cannot prove an asymptotic statement."),
 "C08": ("E1 closed BFS with retain/retain_mut/iter_mut/pop_if as transitions + from every state every consumed prefix x write pattern x direction of iter_mut and every keep-mask x rewrite table of retain_mut",
         "Predicate call logs (each element exactly once), kept sets, written priorities, the element shown to pop_if predicates and the order invariant are checked after every such call from every reachable state and on deep seeds."),
 "C14": ("== / != on all ordered pairs of explored states (all arrangements, capacities, histories) and across two hashers; clone independence from every state",
         "Equality must coincide with equality of the (item, priority) sets on every ordered pair of states of the closure (which makes it an equivalence on the explored set), also between queues with different BuildHashers; target.clone_from(&source) on every ordered pair must give a faithful, valid clone; clones have the same arrangement, behave identically (also when source and clone have different capacity histories, under appends of clashing queues) and never share state with their source."),
 "C17": ("E1 closed BFS with every capacity call (amounts 0..100 and 2^60..usize::MAX) as a transition + twin differential: every depth-2 continuation after the call vs. on the untouched queue",
         "Capacity calls may not change contents, extraction order or any later result (all depth-2 continuations compared with the untouched twin); capacity() lower bounds; try_reserve of unsatisfiable amounts returns Err and leaves the queue unchanged; reserve may only fail with the documented overflow panic; a grid of queues grown by pushes (never clones) x every reservation call x every small amount."),
 "C18": ("the same closed exploration under 5 BuildHashers (fixed sip, seeded, std RandomState twice, fnv via with_default_hasher, all-colliding), oracle on every transition, transition-graph fingerprints compared",
         "Each hasher's run must satisfy the reference-map oracle on every transition (legal up to tie choice); the labelled transition graphs are additionally fingerprinted and reported identical or not (a legal difference would be logged, not alarmed)."),
})

# additions of the later sessions, appended to technique / text of the properties they apply to
LARGE = " E2-large: a structured family of queues of 40..128 (thorough: ..2049) elements, operations addressed at the structural positions of the heap (root, its children, last slots, both ends of every level, the path of the last node, quartiles)."
TWIN = " Every transition is executed a second time on a copy with spare capacity (roomy twin) and must return the same value and reach the same tables."
TYPES = " E4: the closed search is repeated on ten instantiations of the element types (String/&str, zero-sized item and/or priority, Reverse, heap-owning, tuple, 128-bit, Box<str>, arrays)."
EXTRA = {
 "C01": (" + E2-large + roomy twin + E4 type matrix", LARGE + TWIN + TYPES),
 "C02": (" + E2-large + roomy twin + E4 type matrix", LARGE + TWIN + TYPES),
 "C03": (" + E2-large + roomy twin + E4 type matrix", LARGE + TWIN + TYPES),
 "C04": (" + E2-large + roomy twin + E4 type matrix", LARGE + TWIN + TYPES),
 "C05": ("; appends with capacity history", " Appends are also measured on receivers with capacity left by reserve / by having been three times as long."),
 "C06": (" + E2-large", LARGE + " Sorted consumption also after iter_mut (two writes at every pair of positions, early drop), retain and clone_from."),
 "C07": (" + tagged-priority bulk probe + capacity histories in append pairs + E2-large receivers", " Which of several equal-ranking priorities extend / FromIterator / From<Vec> / append keep is checked with priorities whose Ord ignores a tag, for every size_hint; every append pair also runs with spare capacity on either side; receivers of 64..128 (..1025) elements; long batches (24, 48 pairs) naming items repeatedly." + TWIN),
 "C08": (" + for_each / rev().for_each after hand-advanced iter_mut, nth steps, E2-large", LARGE + TWIN),
 "C09": (" + by-value consumers (last, count, for_each, rev().for_each) after every mixed next/next_back prefix + E2-large", LARGE),
 "C10": (" + consuming APIs resumed after the caught panic (sorted iterator, sorted vectors, into_iter, conversion) as fault-capable operations", " Faults are also injected inside into_sorted_iter().next()/next_back() (each call under its own catch_unwind, the iterator used again afterwards), the sorted vectors, into_iter, into_vec and the conversions."),
 "C11": (" + E2-large + roomy twin + E4 type matrix", LARGE + TWIN + TYPES),
 "C12": (" + nth steps with payload writes + E2-large + roomy twin + E4 type matrix (String items through &str)", LARGE + TWIN + TYPES),
 "C13": (" + by-value consumers (last, count, for_each, rev().for_each, find, rfind) after every mixed prefix + E2-large", LARGE),
 "C14": (" + target capacity histories in clone_from pairs + colliding hashers + E2-large + E4 type matrix", " clone_from also into targets with spare capacity / a longer past; equality under all-colliding and partially colliding hashers with different insertion orders; independently built queues up to 257 (2049) elements." + TYPES),
 "C15": (" + round trips of 4097 (..65537) elements + E4 type matrix", " Round trips of queues of 65..4097 (thorough ..65537) elements (beyond any preallocation cap)." + TYPES),
 "C16": (" + roomy twin + E4 type matrix", TWIN + TYPES),
 "C17": (" + E2-large with twin continuations + E4 type matrix", LARGE + TYPES),
 "C18": (" + partially colliding hasher + E2-large under all-colliding / fnv / RandomState", " A seventh hasher with four hash classes; == under colliding hashers with different insertion orders; large queues (40..128, thorough ..1025) with long repeated batches under three hashers."),
}
for k, (t, x) in EXTRA.items():
    IMPLEMENTED[k] = (IMPLEMENTED[k][0] + t, IMPLEMENTED[k][1] + x)

NOT_YET = {}

def main():
    repo_head = subprocess.run(["git","-C","/repo","log","--format=%H %s"],capture_output=True,text=True).stdout.strip().splitlines()
    hooks = [l.split()[0] for l in repo_head if "verif hook" in l]
    checks = []
    for pid in sorted(IMPLEMENTED):
        tech, text = IMPLEMENTED[pid]
        checks.append({
            "property_id": pid,
            "quick_cmd": f"./check {pid} quick",
            "thorough_cmd": f"./check {pid} thorough",
            "evidence_file": f"/verif/evidence/{pid}.json",
            "replay_cmd_template": "./check --replay {path}",
            "engine": "pqmc",
            "level_claimed": {"category": "model_checking", "text": text, "design_ref": f"DESIGN.md section 4 ({pid})"},
            "level_note": "Trusted: the Rust compiler/std, indexmap, the read-only hook (cross-checked against len/get/iter/peek/Debug), the reference map in harness/src/ops.rs. Bounds: small item/priority universes and seed families listed per layer in the evidence; nothing is sampled.",
            "technique": tech,
        })
    m = {
        "version": 1,
        "setup_cmd": "./check --build",
        "hooks": {
            "guard": "--cfg priority_queue_verif",
            "enable": "RUSTFLAGS='--cfg priority_queue_verif' (set in /verif/harness/.cargo/config.toml; the harness has a path dependency on /repo)",
            "baseline_off_cmd": "cd /repo && cargo test --workspace --no-fail-fast --offline",
            "source_commits": hooks,
            "add_only": True,
        },
        "engines": [{
            "name": "pqmc",
            "path": "/verif/harness",
            "serves_properties": sorted(IMPLEMENTED),
            "kind_free_text": "hand-rolled explicit-state model checker in Rust: the transition function is the crate itself (path dependency on /repo, rebuilt on every check), states are identified by the index tables read through the hook, oracle = reference map in lock-step; closed BFS to fixpoint (E1), seeded deep trees (E2), fault enumeration (E3), program enumerators; worker subprocess with abort capture",
        }],
        "checks": checks,
        "notes": "Every check rebuilds the harness against /repo's working tree (cargo, offline). Exit 0 = held, 1 = VIOLATION line with a replay file, 2 = machinery problem (no verdict). known_findings.json lists fixed defects (7 'fix:' commits in /repo) and one open finding (D8, C08: references yielded by iter_mut outlive the iterator; printed as KNOWN-FINDING, exit 0). seeded/ holds 276 independently written property-breaking changes with the checks that report them (seeded/MATRIX.md).",
        "not_applicable": [{"property_id": k, "reason": v} for k, v in sorted(NOT_YET.items())],
    }
    json.dump(m, open("/verif/MANIFEST.json","w"), indent=1)
    print("wrote MANIFEST.json with", len(checks), "checks")

main()
