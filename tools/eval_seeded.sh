#!/bin/bash
# usage: tools/eval_seeded.sh <dir with patch.diff demo.rs> "<property ids to run>" [tier]
# Everything happens in scratch copies (a worktree of /repo with the patch, a copy of the harness
# pointing at it, its own target and output directories): /repo and /verif are not touched.
#  1. suite passes with the patch; demo fails with it and passes without
#  2. the given checks are run against the patched tree
set -u
D=$(realpath "$1"); PROPS="$2"; TIER="${3:-quick}"
S=/tmp/eval-$$; mkdir -p $S
WT=$S/wt
git -C /repo worktree add -q --detach "$WT" HEAD || exit 2
cp /repo/Cargo.lock "$WT/" 2>/dev/null
cleanup() { git -C /repo worktree remove --force "$WT" 2>/dev/null; rm -rf "$S"; }
trap cleanup EXIT
cd "$WT"
export CARGO_TARGET_DIR=$S/wt-target
if [ -n "${SKIP_PRE:-}" ]; then
  git apply "$D/patch.diff" || { echo "RESULT patch does not apply"; exit 2; }
else
cp "$D/demo.rs" tests/zz_demo.rs
if timeout 900 cargo test --offline --features serde --test zz_demo >$S/log 2>&1; then echo "RESULT demo-without-patch: pass"; else echo "RESULT demo-without-patch: FAIL (demo is wrong)"; tail -5 $S/log; fi
rm tests/zz_demo.rs
if ! git apply "$D/patch.diff"; then echo "RESULT patch does not apply"; exit 2; fi
if timeout 900 cargo test --workspace --offline >$S/log 2>&1; then echo "RESULT suite-with-patch: pass"; else echo "RESULT suite-with-patch: FAIL (caught by existing tests)"; grep -E "FAILED|failed|error" $S/log | head -5; fi
cp "$D/demo.rs" tests/zz_demo.rs
if timeout 900 cargo test --offline --features serde --test zz_demo >$S/log 2>&1; then echo "RESULT demo-with-patch: pass (patch does not break the demo)"; else echo "RESULT demo-with-patch: fail (as intended)"; fi
rm -f tests/zz_demo.rs
fi
rm -rf $S/wt-target
# harness copy pointing at the patched worktree
cp -r ${PQMC_HARNESS_SRC:-/verif/harness} $S/harness
sed -i "s#path = \"/repo\"#path = \"$WT\"#" $S/harness/Cargo.toml
sed -i "s#target-dir = \"/verif/target\"#target-dir = \"$S/target\"#" $S/harness/.cargo/config.toml
unset CARGO_TARGET_DIR
cd $S/harness
if ! cargo build --release --offline >$S/log 2>&1; then echo "RESULT harness does not build against the patched tree"; grep -E "^error" -A6 $S/log | head -20; exit 0; fi
export PQMC_OUT_DIR=$S/out
for p in $PROPS; do
  out=$(timeout 3600 $S/target/release/pqmc check $p $TIER 2>&1); rc=$?
  v=$(echo "$out" | grep -m1 "^VIOLATION" | sed "s#$S/out#<out>#")
  echo "$out" > $D/check-$p-$TIER.log
  echo "RESULT check $p $TIER: exit=$rc ${v}"
  echo "$out" | grep -A4 -m1 "^VIOLATION" | tail -4 | cut -c1-300
done
